"""C08 - removal and disconnection delete exactly the owned structure and nothing else.

Per-step tie: a random history is executed on the REAL topology API (harness/topo8_build.py), the model
graph is snapshotted, ONE removal / disconnect operation is performed through freshly looked-up handles,
and the graph is snapshotted again.  Coq (Model/T8Ops.v, check8) is fed the real pre-state and predicts
the outcome class, the post-state and the handle caches.  Independently of the Coq model, `oracle`
restates the property over the two snapshots: frame (survivors keep every property and every edge
between survivors, nothing appears), exactness (removed set = owned closure + peering artefacts) and
handle lists = freshly looked-up lists."""
import sys, json, random
from . import common
from .common import *
from . import topo8_build as B

CLS = {'NetworkNode': 'CNode', 'Component': 'CComp', 'NetworkService': 'CNS', 'ConnectionPoint': 'CCP',
       'Link': 'CLink', 'CompositeNode': 'CComposite'}
REL = {'has': 'RHas', 'connects': 'RConnects'}
TYP = {'ServicePort': 1, 'Facility': 2, 'Switch': 3, 'DedicatedPort': 4, 'SubInterface': 5}
EXC = {'ok': 0, 'TopologyException': 1, 'PropertyGraphQueryException': 2, 'AssertionError': 3, 'IndexError': 4}


# ----------------------------------------------------------------------------------------------
# the property restated over snapshots (independent of the Coq model and of the library)
# ----------------------------------------------------------------------------------------------
def owned(v, x):
    """containment closure: node -has-> components, services; component -has-> services;
    service -connects-> its ports; port -connects-> its sub-interfaces"""
    out = {x}
    c = v.cls(x)
    if c == 'NetworkNode':
        for y in v.nb(x, 'has', 'Component') + v.nb(x, 'has', 'NetworkService'):
            out |= owned(v, y)
    elif c == 'Component':
        for y in v.nb(x, 'has', 'NetworkService'):
            out |= owned(v, y)
    elif c == 'NetworkService':
        for y in v.cps_of_service(x):
            out |= owned(v, y)
    elif c == 'ConnectionPoint' and v.typ(x) != 'SubInterface':
        out |= set(v.children(x))
    return out


def with_artefacts(v, r0):
    """r0 plus the peering artefacts of the removed interfaces: the service-side port across a
    two-ended link, and every link (of at least two ends) left with fewer than two ends.
    Returns (expected set, {service port: (interface it was created for)})"""
    sps = {}
    for i in sorted(r0):
        if v.cls(i) != 'ConnectionPoint':
            continue
        for l in v.links_of(i):
            e = v.ends(l)
            if len(e) == 2:
                p = [q for q in e if q != i]
                if p and v.typ(p[0]) == 'ServicePort' and p[0] not in r0:
                    sps[p[0]] = i
    r1 = set(r0) | set(sps)
    links = set()
    for l in v.of_class('Link'):
        e = v.ends(l)
        if len(e) == 2 and any(x in r1 for x in e):
            links.add(l)
    return r1 | links, sps


def optional_links(v, exp):
    """links of three or more ends that the removal leaves with at most one end: not peering artefacts (those
    have two ends); the property text neither requires nor forbids deleting such a dangling link"""
    out = set()
    for l in v.of_class('Link'):
        e = v.ends(l)
        if len(e) >= 3 and l not in exp and len([x for x in e if x not in exp]) <= 1:
            out.add(l)
    return out


def family_conflict(v):
    """a link of three or more ends with two ends inside one port family (a port and its sub-interfaces): the
    outcome of the link-count test then depends on python set iteration order (not modelled, excluded by WF)"""
    for l in v.of_class('Link'):
        e = v.ends(l)
        if len(e) < 3:
            continue
        fam = [tuple(v.parent_cp(x)) or (x,) for x in e]
        if len(set(fam)) < len(fam):
            return True
    return False


def satisfies_wq(v):
    """the hypothesis WQ of the Coq equation theorems (C08_deleted_nonlinks_iff / _links_iff), re-implemented over a
    snapshot, to report how many generated states it covers"""
    cps = v.of_class('ConnectionPoint')
    for a, b, c, _ in [(a, b, c, 0) for a in v.n for b, c in v.adj[a]]:
        pair = {v.cls(a), v.cls(b)}
        if ('Link' in pair or pair == {'NetworkService', 'ConnectionPoint'}) and c != 'connects':
            return False
    for i in cps:
        if len(v.links_of(i)) > 1:
            return False
        if v.typ(i) == 'ServicePort' and v.nb(i, 'connects', 'ConnectionPoint'):
            return False
    for l in v.of_class('Link'):
        e = v.nb(l, 'connects', 'ConnectionPoint')
        if any(v.typ(x) == 'ServicePort' for x in e) and len(e) != 2:
            return False
        for x in e:
            for y in e:
                if x != y and (y in v.nb(x, 'connects', 'ConnectionPoint') or
                               set(v.nb(x, 'connects', 'ConnectionPoint')) & set(v.nb(y, 'connects', 'ConnectionPoint'))):
                    return False
    for s in v.of_class('NetworkService'):
        for i in v.nb(s, 'connects', 'ConnectionPoint'):
            for x in v.nb(i, 'connects', 'ConnectionPoint'):
                if v.nb(x, 'connects', 'ConnectionPoint') != [i]:
                    return False
    return True


def resolve(v, flavour, op):
    """ids of the elements an operation addresses, from the snapshot alone; None when it addresses nothing"""
    def top(cls, name, pred=lambda i: True):
        c = [i for i in v.of_class(cls) if v.name(i) == name and pred(i)]
        return c[0] if len(c) == 1 else None

    def svc(sp):
        if sp[0] == 't':
            c = [s for s in v.of_class('NetworkService') if v.name(s) == sp[1]]
            return c[0] if len(c) == 1 else None
        n = top('NetworkNode', sp[1])
        if n is None:
            return None
        if sp[0] == 'n':
            c = [s for s in v.nb(n, 'has', 'NetworkService') if v.name(s) == sp[2]]
            return c[0] if len(c) == 1 else None
        cc = [c for c in v.nb(n, 'has', 'Component') if v.name(c) == sp[2]]
        if len(cc) != 1:
            return None
        ss = v.nb(cc[0], 'has', 'NetworkService')
        return ss[0] if ss else None

    def ifc(ip):
        if ip[0] == 't':
            s, rest = svc(['t', ip[1]]), ip[2:]
        elif ip[0] == 'n':
            s, rest = svc(['n', ip[1], ip[2]]), ip[3:]
        else:
            s, rest = svc(['c', ip[1], ip[2]]), ip[3:]
        if s is None:
            return None
        c = [i for i in v.cps_of_service(s) if v.name(i) == rest[0]]
        if len(c) != 1:
            return None
        i = c[0]
        for ch in rest[1:]:
            c = [j for j in v.children(i) if v.name(j) == ch]
            if len(c) != 1:
                return None
            i = c[0]
        return i
    k = op[0]
    if k in ('remove_node', 'remove_facility', 'remove_switch'):
        return {'x': top('NetworkNode', op[1])}
    if k == 'remove_link':
        return {'x': top('Link', op[1])}
    if k == 'remove_ns':
        return {'x': top('NetworkService', op[1])}
    if k == 'remove_component':
        n = top('NetworkNode', op[1])
        c = [c for c in v.nb(n, 'has', 'Component') if v.name(c) == op[2]] if n else []
        return {'h': n, 'x': c[0] if len(c) == 1 else None}
    if k == 'node_remove_ns':
        n = top('NetworkNode', op[1])
        c = [s for s in v.nb(n, 'has', 'NetworkService') if v.name(s) == op[2]] if n else []
        return {'h': n, 'x': c[0] if len(c) == 1 else None}
    if k == 'disconnect':
        return {'h': svc(op[1]), 'x': ifc(op[2])}
    if k == 'unpeer':
        return {'h': svc(op[1]), 'h2': svc(op[2])}
    if k == 'remove_interface':
        s = svc(op[1])
        c = [i for i in v.cps_of_service(s) if v.name(i) == op[2]] if s else []
        return {'h': s, 'x': c[0] if len(c) == 1 else None}
    if k == 'remove_child':
        p = ifc(op[1])
        c = [j for j in v.children(p) if v.name(j) == op[2]] if p else []
        return {'h': p, 'x': c[0] if len(c) == 1 else None}
    return {}


def marked(v, i, state):
    ri = v.n[i].get('ReservationInfo')
    try:
        return bool(ri) and json.loads(ri).get('reservation_state') == state
    except ValueError:
        return False


def prune_targets(v, state):
    """the elements ExperimentTopology.prune documents as its scope ("any elements with reservation_info.reservation_state
    matching"): nodes, their components, services, the interfaces of services and their sub-interfaces.  Facility nodes
    count only once the running library visits them (proposed_fixes/C08-9); before that a marked facility that
    survives is reported by judge as the finding prune-skips-marked-facility"""
    t = set()
    for n in v.of_class('NetworkNode'):
        if v.typ(n) == 'Facility' and not prune_visits_facilities():
            continue
        if marked(v, n, state):
            t.add(n)
        for c in v.nb(n, 'has', 'Component'):
            if marked(v, c, state):
                t.add(c)
    for s in v.of_class('NetworkService'):
        if marked(v, s, state):
            t.add(s)
        for i in v.cps_of_service(s):
            if marked(v, i, state):
                t.add(i)
    # per the contract "any elements with the matching reservation state": the sub-interfaces of those interfaces too
    # (the code before proposed_fixes/C08-8 does not visit them: finding prune-skips-marked-subinterface)
    return t | marked_subinterfaces(v, state)


def marked_facilities(v, state):
    return {n for n in v.of_class('NetworkNode') if v.typ(n) == 'Facility' and marked(v, n, state)}


def marked_subinterfaces(v, state):
    return {c for s in v.of_class('NetworkService') for i in v.cps_of_service(s) if v.typ(i) == 'DedicatedPort'
            for c in v.children(i) if marked(v, c, state)}


def expectation(v, flavour, op):
    """(applicable?, expected removed set or None, artefact map, note).  applicable = the property's
    'applicable removal': the element exists and is of the addressed kind; the operation must then succeed."""
    k = op[0]
    r = resolve(v, flavour, op)
    x = r.get('x')

    def multi_peer(ids):
        for i in ids:
            if v.cls(i) == 'ConnectionPoint':
                for l in v.links_of(i):
                    if len(v.ends(l)) > 2 and any(v.typ(q) == 'ServicePort' for q in v.ends(l)):
                        return True
                if len(v.links_of(i)) > 1:
                    return True
        return False
    if k in ('remove_node', 'remove_facility', 'remove_switch'):
        ok = x is not None and {'remove_node': v.typ(x) != 'Facility', 'remove_facility': v.typ(x) == 'Facility',
                                'remove_switch': v.typ(x) == 'Switch'}[k]
        if not ok:
            return False, set(), {}, 'not applicable'
        o = owned(v, x)
        exp, sps = with_artefacts(v, o)
        return not multi_peer(o), exp, sps, ''
    if k == 'remove_link':
        if x is not None and any(v.typ(e) == 'ServicePort' for e in v.ends(x)):
            # a link made by connect_interface / peer: refused (fix 65db950), nothing may change
            return False, set(), {}, 'peering link'
        return (x is not None), ({x} if x is not None else set()), {}, ''
    if k in ('remove_ns', 'remove_component', 'node_remove_ns', 'remove_interface', 'remove_child'):
        if x is None or (k == 'remove_interface' and flavour == 'exp') or \
                (k == 'remove_child' and v.typ(r['h']) != 'DedicatedPort'):
            return False, set(), {}, 'not applicable'
        o = owned(v, x)
        exp, sps = with_artefacts(v, o)
        return not multi_peer(o), exp, sps, ''
    if k == 'disconnect':
        if x is None:
            return False, set(), {}, 'not applicable'
        peers = [p for l in v.links_of(x) for p in v.ends(l) if p != x]
        if len(peers) == 0:
            return True, set(), {}, 'no peer'
        if len(peers) > 1:
            return False, None, {}, 'several peers'
        if v.typ(peers[0]) != 'ServicePort':
            return False, set(), {}, 'not a service port'      # not connected to a service: nothing may be deleted
        exp, sps = with_artefacts(v, {peers[0]})
        return True, exp, sps, ''
    if k == 'unpeer':
        a, b = r.get('h'), r.get('h2')
        if a is None or b is None or a == b:
            return False, set(), {}, 'not applicable'
        trip = [(p, l, q) for p in v.cps_of_service(a) for l in v.links_of(p) if len(v.ends(l)) == 2
                for q in v.ends(l) if q != p and q in v.cps_of_service(b)
                and v.typ(p) == 'ServicePort' and v.typ(q) == 'ServicePort']
        if len(trip) == 0:
            # the repaired code accepts any service - x - link - y - service chain of `connects` edges: when x or y is
            # a NODE port (e.g. a NIC's own service vs the service its port is connected to) it still deletes them
            chain = [(p, l, q) for p in v.nb(a, 'connects') for l in v.nb(p, 'connects') if v.cls(l) == 'Link'
                     for q in v.nb(l, 'connects') if q != p and b in v.nb(q, 'connects')]
            return False, set(), {}, 'not peered node port' if chain else 'not peered'
        if len(trip) > 1:
            return False, None, {}, 'peered more than once'
        p, l, q = trip[0]
        chain = [(x, m, y) for x in v.nb(a, 'connects') for m in v.nb(x, 'connects') if v.cls(m) == 'Link'
                 for y in v.nb(m, 'connects') if y != x and b in v.nb(y, 'connects')]
        if len(chain) > 1:
            # the services peer AND one is connected to a port of the other: several 5-node paths, the code tests only
            # the one networkx happens to pick (it may refuse the genuine peering)
            return False, {p, l, q}, {}, 'peered and connected'
        return True, {p, l, q}, {}, ''
    if k == 'prune':
        t = prune_targets(v, op[1])
        o = set()
        for y in t:
            o |= owned(v, y)
        exp, sps = with_artefacts(v, o)
        # overlapping marks: a marked element is owned by, or is a peering artefact of, another marked element.  prune's
        # removal steps are not idempotent (the second one addresses an element that is already gone and raises):
        # such a call is not an 'applicable removal'
        nested = any(y in with_artefacts(v, owned(v, z))[0] for y in t for z in t if y != z)
        if prune_skips_gone():
            nested = False        # the repaired prune skips what is already gone: overlapping marks are fine
        return (not multi_peer(o)) and not nested, exp, sps, 'overlapping marks' if nested else ''
    return False, None, {}, 'unknown op'


def frame_violation(pre, post):
    """survivors keep all properties, every edge between survivors survives with its properties, nothing appears"""
    for i, d in post['nodes'].items():
        if i not in pre['nodes']:
            return 'node %s appeared' % i
        if pre['nodes'][i] != d:
            ks = [k for k in set(d) | set(pre['nodes'][i]) if d.get(k) != pre['nodes'][i].get(k)]
            return 'properties %s of surviving node %s (%s) changed' % (ks, i, d.get('Name'))
    want = [e for e in pre['edges'] if e[0] in post['nodes'] and e[1] in post['nodes']]
    if want != post['edges']:
        lost = [e for e in want if e not in post['edges']]
        new = [e for e in post['edges'] if e not in want]
        return 'edges between survivors changed: lost %s new %s' % (lost[:2], new[:2])
    return None


_PATHLESS = []
_PRUNE_SKIPS = []
_PRUNE_SUBS = []
_PRUNE_FACS = []


def prune_visits_facilities():
    # does the RUNNING library's prune also collect Facility nodes (which Topology.nodes leaves out) and remove them
    # with remove_facility (proposed_fixes/C08-9)?  Selects the transcription OPrune9.
    if not _PRUNE_FACS:
        import inspect
        from fim.user.topology import ExperimentTopology
        _PRUNE_FACS.append('facilities' in inspect.getsource(ExperimentTopology.prune)
                           and 'remove_facility' in inspect.getsource(ExperimentTopology._prune_node))
    return _PRUNE_FACS[0]


def prune_visits_subinterfaces():
    # does the RUNNING library's prune also collect the sub-interfaces of service ports and remove a sub-interface
    # without its parent port (proposed_fixes/C08-8)?  Selects the transcription OPrune8.
    if not _PRUNE_SUBS:
        import inspect
        from fim.user.topology import ExperimentTopology
        _PRUNE_SUBS.append('delete_parent' in inspect.getsource(ExperimentTopology._prune_interface))
    return _PRUNE_SUBS[0]


def prune_skips_gone():
    """does the RUNNING library's prune skip what an earlier pruning step already removed and disconnect before removing
    (proposed_fixes/C08-7)?  Selects the transcription OPrune7 and makes overlapping marks an applicable removal."""
    if not _PRUNE_SKIPS:
        import inspect
        from fim.user.topology import ExperimentTopology
        _PRUNE_SKIPS.append('node_exists' in inspect.getsource(ExperimentTopology._prune_ns))
    return _PRUNE_SKIPS[0]



def unpeer_is_pathless():
    """which transcription of NetworkService.unpeer applies, read off the RUNNING library: the shortest-path version
    (OUnpeer; fixes 13b815d / 0d94156) or the rewrite of proposed_fixes/C08-6 that finds the peering from the service's
    own service ports (OUnpeer6)"""
    if not _PATHLESS:
        import inspect
        from fim.user.network_service import NetworkService
        _PATHLESS.append('get_nodes_on_shortest_path' not in inspect.getsource(NetworkService.unpeer))
    return _PATHLESS[0]


# ----------------------------------------------------------------------------------------------
def _flat(x):
    if isinstance(x, (list, tuple)):
        for y in x:
            yield from _flat(y)
    else:
        yield x


class Removals(Stream):
    name = 'removals'
    header = ('From Coq Require Import List NArith Bool.\nImport ListNotations.\n'
              'From FIM Require Import Model.T8Graph Model.T8Ops.\nOpen Scope N_scope.\n')
    case_type = 'obs'
    check_fn = 'check8'
    shard = 150
    rule = ('case = (flavour, history of topology-building/removal calls executed on the real API, one removal or '
            'disconnect operation); non-trivial = the operation returned and deleted at least one element; '
            'distinct by (operation kind, canonical pre-state shape, addressed element)')
    QUOTA = {'remove_interface': 0.25, 'remove_link': 0.5, 'remove_node': 0.8}

    # ---- generation ----
    def gen(self, rng, tier):
        nh = 130 if tier == 'quick' else 400
        per = 10 if tier == 'quick' else 35
        out = []
        for _ in range(nh):
            fl = 'exp' if rng.random() < 0.72 else 'sub'
            steps = rng.randrange(4, 22 if tier == 'quick' else 38)
            hist, snap, kept = B.gen_history(rng, fl, steps)
            ops = B.enumerate_removals(snap, fl, rng, kept=kept)
            ops = [o for o in ops if rng.random() < self.QUOTA.get(o[0], 1.0) or tier != 'quick']
            if fl == 'exp':      # remove_interface always refuses in experiment topologies: keep a few
                ops = [o for o in ops if o[0] != 'remove_interface' or rng.random() < 0.08]
            rng.shuffle(ops)
            # by-name removals of an element that has a look-alike sibling (names equal after case folding) go first
            la = B.lookalike_names(snap)
            if la:
                hot = [o for o in ops if any(isinstance(x, str) and x in la for x in _flat(o[1:]))]
                ops = hot[:3] + [o for o in ops if o not in hot[:3]]
            for o in ops[:per]:
                out.append({'flavour': fl, 'history': hist, 'op': o})
        return out

    def corpus(self):
        out = []
        d = os.path.join(VERIF, 'corpus', 'C08')
        for p in sorted(glob.glob(os.path.join(d, '*.json'))):
            with open(p) as f:
                out.append(json.load(f))
        return out

    # ---- running the implementation ----
    _cache = None      # (key, epoch, env): the state a history builds, restored instead of replayed

    def _env_for(self, case):
        key = json.dumps([case['flavour'], case['history']], sort_keys=True)
        c = Removals._cache
        if c is not None and c[0] == key and c[1] == B.EPOCH[0]:
            c[2].restore()
            return c[2]
        if c is not None:
            c[2].close()
        env = B.replay(case['flavour'], case['history'])
        env.save()
        Removals._cache = (key, B.EPOCH[0], env)
        return env

    def observe(self, case):
        env = None
        try:
            env = self._env_for(case)
            pre = env.snapshot()
            op = case['op']
            try:
                hs = B.removal_handles(env, op)
            except Exception as e:
                return {'pre': pre, 'post': pre, 'outcome': 'unresolved:' + type(e).__name__, 'before': [], 'after': [],
                        'fresh': [], 'hids': [], 'history_errors': env.errors}
            nh = 1 if op[0] == 'disconnect' else len(hs)
            hids = [h.node_id for h in hs[:nh]]
            before = [B.if_ids(h) for h in hs[:nh]]
            fresh_before = []
            for h in hs[:nh]:
                try:
                    fresh_before.append(B.if_ids(type(h)(name=h.name, node_id=h.node_id, topo=env.t)))
                except Exception:
                    fresh_before.append(None)
            try:
                B.call_removal(env, op, hs)
                outcome = 'ok'
            except Exception as e:
                outcome = type(e).__name__
            post = env.snapshot()
            after, fresh = [], []
            for h in hs[:nh]:
                try:
                    after.append(B.if_ids(h))
                except Exception as e:
                    after.append(None)
                try:
                    fresh.append(B.if_ids(type(h)(name=h.name, node_id=h.node_id, topo=env.t))
                                 if h.node_id in post['nodes'] else None)
                except Exception as e:
                    fresh.append(None)
            return {'pre': pre, 'post': post, 'outcome': outcome, 'before': before, 'after': after, 'fresh': fresh,
                    'fresh_before': fresh_before, 'hids': hids, 'history_errors': env.errors}
        except Exception as e:
            Removals._cache = None
            return {'harness_error': repr(e)}

    # ---- Coq term ----
    def to_coq(self, case, o):
        if 'harness_error' in o or o['outcome'].startswith('unresolved') or family_conflict(B.View(o['pre'])):
            return self._trivial()
        pre, post, op = o['pre'], o['post'], case['op']
        ids = {i: k + 1 for k, i in enumerate(sorted(pre['nodes']))}
        for i in sorted(post['nodes']):
            ids.setdefault(i, len(ids) + 1)
        names = {}

        def nm(s):
            return names.setdefault(s, len(names) + 1)
        rests = {}
        state = op[1] if op[0] == 'prune' else None

        def node(i, d):
            rest = json.dumps({k: v for k, v in d.items() if k not in ('NodeID', 'Class', 'Type', 'Name')}, sort_keys=True)
            r = rests.setdefault(rest, len(rests) + 1)
            mark = False
            if state is not None and d.get('ReservationInfo'):
                try:
                    mark = json.loads(d['ReservationInfo']).get('reservation_state') == state
                except ValueError:
                    mark = False
            t = d.get('Type')
            tc = TYP.get(t, 10 + nm('type:' + str(t)))
            return 'mkNode %d %s %d %d %s %d' % (ids[i], CLS.get(d.get('Class'), 'COther'), tc, nm(d.get('Name')),
                                                 cbool(mark), r)

        def graph(s):
            ns = [node(i, s['nodes'][i]) for i in sorted(s['nodes'], key=lambda x: ids[x])]
            es = sorted((min(ids[a], ids[b]), max(ids[a], ids[b]), REL.get(c, 'ROther'), json.dumps(p, sort_keys=True))
                        for a, b, c, p in s['edges'])
            es = ['mkEdge %d %d %s' % (a, b, c if p == '{}' else 'ROther') for a, b, c, p in es]
            return 'mkGraph %s %s' % (clist(ns), clist(es))
        gpre = graph(pre)
        gpost = graph(post)
        v = B.View(pre)
        r = resolve(v, case['flavour'], op)
        k = op[0]

        def idof(x):
            return 0 if x is None else ids[x]
        if k == 'remove_node':
            t = 'ORemoveNode %d' % nm(op[1])
        elif k == 'remove_facility':
            t = 'ORemoveFacility %d' % nm(op[1])
        elif k == 'remove_switch':
            t = 'ORemoveSwitch %d' % nm(op[1])
        elif k == 'remove_link':
            t = 'ORemoveLink %d' % nm(op[1])
        elif k == 'remove_ns':
            t = 'ORemoveNsTopo %d' % nm(op[1])
        elif k == 'remove_component':
            t = 'ORemoveComponent %d %d' % (ids[o['hids'][0]], nm(op[2]))
        elif k == 'node_remove_ns':
            t = 'ONodeRemoveNs %d %d' % (ids[o['hids'][0]], nm(op[2]))
        elif k == 'disconnect':
            t = 'ODisconnect %d %d' % (ids[o['hids'][0]], idof(r.get('x')))
        elif k == 'unpeer':
            t = '%s %d %d' % ('OUnpeer6' if unpeer_is_pathless() else 'OUnpeer', ids[o['hids'][0]], ids[o['hids'][1]])
        elif k == 'remove_interface':
            t = 'ORemoveInterface %d %d' % (ids[o['hids'][0]], nm(op[2]))
        elif k == 'remove_child':
            t = 'ORemoveChild %d %d' % (ids[o['hids'][0]], nm(op[2]))
        else:
            t = ('OPrune9' if prune_visits_facilities() and prune_visits_subinterfaces() else
                 'OPrune8' if prune_visits_subinterfaces() else ('OPrune7' if prune_skips_gone() else 'OPrune'))
        cached = k in ('disconnect', 'unpeer', 'remove_interface', 'remove_child')

        def cl(lists):
            return clist([clist(['%d' % ids[i] for i in (l or []) if i in ids]) for l in lists]) if cached else '[]'
        code = EXC.get(o['outcome'], 9)
        return '(mkObs %s (%s) (%s) %s %d (%s) %s)' % (cbool(case['flavour'] == 'exp'), gpre, t, cl(o['before']), code,
                                                       gpost, cl(o['after']) if code == 0 else '[]')

    def _trivial(self):
        return '(mkObs true (mkGraph [] []) (ORemoveLink 1) [] 2 (mkGraph [] []) [])'

    # ---- the property, on implementation observables only ----
    def judge(self, case, o):
        """list of (signature, text) of everything that contradicts the property in this case"""
        if 'harness_error' in o:
            return [('harness-error', o['harness_error'])]
        if o['outcome'].startswith('unresolved'):
            return []
        op, k = case['op'], case['op'][0]
        pre, post = o['pre'], o['post']
        v = B.View(pre)
        bad = []
        fv = frame_violation(pre, post)
        if fv:
            bad.append(('frame op=%s' % k, fv))
        applicable, exp, sps, note = expectation(v, case['flavour'], op)
        removed = set(pre['nodes']) - set(post['nodes'])
        if o['outcome'] != 'ok':
            if note == 'peered and connected':
                bad.append(('unpeer-refused op=unpeer peered-and-connected',
                            'the services peer, but unpeer raised %s (another 5-node path runs through a node port)' % o['outcome']))
            if applicable:
                bad.append(('applicable-removal-raised op=%s exc=%s' % (k, o['outcome']),
                            'applicable %s raised %s' % (op, o['outcome'])))
            return bad
        if exp is not None and removed != exp:
            extra = sorted(removed - exp - optional_links(v, exp))
            missing = sorted(exp - removed)
            if extra:
                bad.append(('deleted-too-much op=%s%s' % (k, (' ' + note.replace(' ', '-')) if note else ''),
                            'deleted but neither owned nor a peering artefact: %s'
                            % [(v.cls(i), v.name(i)) for i in extra]))
            stranded = [i for i in missing if i in sps]
            for i in stranded:
                via = {'SubInterface': 'subinterface', 'ServicePort': 'serviceport'}.get(v.typ(sps[i]), 'port')
                bad.append(('stranded-service-port op=%s via=%s' % (k, via),
                            'service port %s created for %s %s is left behind without its link'
                            % (v.name(i), via, v.name(sps[i]))))
            rest = [i for i in missing if i not in sps]
            if k == 'prune' and not prune_visits_subinterfaces():
                subs = marked_subinterfaces(v, op[1])
                left = [i for i in rest if i in subs]
                art = [i for i in missing if i in sps and sps[i] in subs]
                if left:
                    bad.append(('prune-skips-marked-subinterface',
                                'sub-interfaces in the pruned state survive prune: %s' % [v.name(i) for i in left]))
                    rest = [i for i in rest if i not in left and not any(i in v.links_of(c) for c in left)]
                    bad[:] = [b for b in bad if not (b[0].startswith('stranded-service-port op=prune')
                                                     and any(("service port %s " % v.name(a)) in b[1] for a in art))]
            if rest:
                bad.append(('not-deleted op=%s%s' % (k, (' ' + note.replace(' ', '-')) if note else ''),
                            'owned elements or artefacts left behind: %s' % [(v.cls(i), v.name(i)) for i in rest]))
        if k == 'prune' and o['outcome'] == 'ok' and not prune_visits_facilities():
            left = sorted(i for i in marked_facilities(v, op[1]) if i not in removed)
            if left:
                bad.append(('prune-skips-marked-facility',
                            'facility nodes in the pruned state survive prune: %s' % [v.name(i) for i in left]))
        # the link equation (Coq: C08_link_deleted_iff), on the implementation's own before/after: a link is deleted iff it
        # had >= 2 ends, lost >= 1 and <= 1 survives - in states where no link has two ends in one port family
        if k != 'remove_link' and not family_conflict(v):
            for l in v.of_class('Link'):
                e = v.nb(l, 'connects', 'ConnectionPoint')
                should = len(e) >= 2 and any(x in removed for x in e) and len([x for x in e if x not in removed]) <= 1
                if (l in removed) != should:
                    bad.append(('link-equation op=%s' % k,
                                'link %s with ends %s: deleted=%s, but %d of its ends were deleted'
                                % (v.name(l), [v.name(x) for x in e], l in removed, len([x for x in e if x in removed]))))
                    break
        fb = o.get('fresh_before') or [None] * len(o['hids'])
        for h, b, a, fr, frb in zip(o['hids'], o['before'], o['after'], o['fresh'], fb):
            if frb is not None and b != frb:
                # the handle was already stale before the call (a long-lived handle while the service was changed
                # through another one): it must at least stop reporting what the call deleted, and change nothing else
                want = [x for x in b if x not in removed]
                if a is not None and a != want:
                    bad.append(('stale-handle-not-updated op=%s' % k,
                                'long-lived handle %s reported %s before, %s after; deleted %s'
                                % (v.name(h), [pre['nodes'].get(i, {}).get('Name') for i in b],
                                   [pre['nodes'].get(i, {}).get('Name') for i in a],
                                   sorted(v.name(i) for i in removed))))
                continue
            if fr is not None and a != fr:
                bad.append(('stale-handle op=%s' % k,
                            'handle %s reports interfaces %s, a fresh look-up reports %s'
                            % (v.name(h), [pre['nodes'].get(i, {}).get('Name') for i in (a or [])],
                               [pre['nodes'].get(i, {}).get('Name') for i in fr])))
        return bad

    def _unknown(self, bad):
        kn = known_for('C08')
        return [b for b in bad if not any(k.get('signature') and re.search(k['signature'], b[0]) for k in kn)]

    def oracle(self, case, o):
        bad = self.judge(case, o)
        if not bad:
            return None
        unk = self._unknown(bad)
        b = (unk or bad)[0]
        return '%s :: %s' % b

    def known_signature(self, case, o, why):
        return why or ''

    # ---- statistics ----
    def key(self, case, o):
        if 'harness_error' in o or o['outcome'] != 'ok':
            return None
        removed = set(o['pre']['nodes']) - set(o['post']['nodes'])
        if not removed:
            return None
        v = B.View(o['pre'])
        shape = sorted((v.cls(i), v.typ(i), len(v.adj[i])) for i in v.n)
        return stable_hash([case['op'][0], shape, sorted((v.cls(i), v.typ(i)) for i in removed)])

    def histogram(self, cases, obs):
        h = {}

        def inc(k):
            h[k] = h.get(k, 0) + 1
        for c, o in zip(cases, obs):
            if 'harness_error' in o:
                inc('harness_error')
                continue
            inc('op:' + c['op'][0])
            if c['op'][-1] == 'K':
                inc('through_long_lived_handle')
                if o.get('fresh_before') and any(b != f for b, f in zip(o['before'], o['fresh_before']) if f is not None):
                    inc('through_long_lived_handle_that_was_stale')
            inc('flavour:' + c['flavour'])
            inc('outcome:' + o['outcome'])
            n = len(o['pre']['nodes'])
            inc('pre_nodes:%s' % ('<10' if n < 10 else '<25' if n < 25 else '<50' if n < 50 else '>=50'))
            r = len(set(o['pre']['nodes']) - set(o['post']['nodes']))
            inc('removed:%s' % ('0' if r == 0 else '1' if r == 1 else '2-5' if r < 6 else '6-15' if r < 16 else '>15'))
            v = B.View(o['pre'])
            if any(len(v.ends(l)) > 2 for l in v.of_class('Link')):
                inc('state_has_shared_link_gt2_ends')
            if any(v.typ(i) == 'SubInterface' for i in v.n):
                inc('state_has_subinterfaces')
            if family_conflict(v):
                inc('set_order_sensitive_state_not_compared_with_model')
            if satisfies_wq(v):
                inc('state_satisfies_WQ_hypothesis_of_the_equation')
            for b in self.judge(c, o):
                inc('finding:' + b[0])
        return dict(sorted(h.items()))

    def describe(self, case, o):
        if 'harness_error' in o:
            return {'case': case, 'impl': o}
        return {'case': case, 'impl': {'outcome': o['outcome'],
                                       'removed': sorted(o['pre']['nodes'][i]['Name'] for i in
                                                         set(o['pre']['nodes']) - set(o['post']['nodes'])),
                                       'pre_nodes': len(o['pre']['nodes'])}}

    # ---- shrinking: drop history operations while the same kind of failure persists ----
    def shrink(self, case, failing):
        # keep the SAME kind of failure while shrinking (the framework's predicate accepts any oracle failure,
        # which would let the case drift to one of the known findings)
        w0 = self.oracle(case, self.observe(case))
        if w0:
            sig0 = w0.split(' :: ')[0]

            def failing(cc):
                w = self.oracle(cc, self.observe(cc))
                return bool(w) and w.split(' :: ')[0] == sig0
        cur = dict(case)
        hist = list(cur['history'])
        n = 2
        while len(hist) >= 1 and n <= len(hist) * 2:
            chunk = max(1, len(hist) // n)
            changed = False
            i = 0
            while i < len(hist):
                cand = hist[:i] + hist[i + chunk:]
                c2 = dict(cur, history=cand)
                if failing(c2):
                    hist = cand
                    cur = c2
                    changed = True
                else:
                    i += chunk
            if not changed:
                if chunk == 1:
                    break
                n *= 2
        return cur


class C08(Check):
    pid = 'C08'
    translators = []
    model_targets = ['Model/T8Ops.vo']
    streams = [Removals()]
    trusted_base = [
        'Coq 8.16.1 kernel (coqc), vm_compute for the correspondence evaluation; no native_compute',
        'Print Assumptions of every C08 theorem: Closed under the global context (no axioms)',
        'harness/c08.py + harness/topo8_build.py + harness/common.py (history generation, execution on the real API, '
        'snapshots straight from the in-memory store, interning of ids/names/property blobs, cases.v writer)',
        'modelled not verified: networkx Graph adjacency / remove_node, nx.shortest_path (breadth-first distance; only the '
        'case of a unique second and next-to-last hop is predicted), python set iteration (order not modelled: EAmbig)',
        'name -> id resolution of child elements (first match in a neighbour list) assumes names unique within their scope',
    ]
    assumptions = ['in-memory (NetworkX) backend; the Neo4j backend is not exercised',
                   'element names unique within their scope (enforced by the library); histories rename elements, including to equal names in different scopes of one node']


# the five formerly refuted statements (stranded sub-interface port, unpeer of non-peered services, disconnect of a
# non-service peer, stale remove_interface / remove_child_interface handle lists) are repaired in /repo
# (4c6e5fb, 13b815d, edd75a8) and are now positive theorems; their scenarios stay in corpus/C08/w_*.json


if __name__ == '__main__':
    sys.exit(main(C08()))

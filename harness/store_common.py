"""Shared by C04 and C05: the operation alphabet on the two in-memory property-graph backends, the
driver that executes a history on the REAL code and records result / exception class / whole-store
snapshot after every step, the canonicalisers, the printers to the Coq terms of Model/Store.v, and the
history generators.

Every Python string that reaches the library is taken from a fixed table (SYM) and interned to N with
that one injective table, so that `==` on strings in the library is `N.eqb` in the model.
A history (the "case") is a JSON-able list of operations:

  ['import', g, nodes, edges]        storage.add_graph(g, nx.Graph)     nodes=[[key,{p:v}]], edges=[[k1,k2,{p:v}]]
  ['import_direct', g, nodes, edges] storage.add_graph_direct
  ['del_graph', g]                   graph.delete_graph()
  ['clone', g, g2]                   graph(g).clone_graph(new_graph_id=g2)
  ['add_node', g, n, cls, props|None]
  ['del_node', g, n]
  ['add_link', g, a, rel, b, props|None]
  ['upd_node', g, n, p, v] ['unset_node', g, n, p] ['upd_nodes', g, p, v] ['upd_node_props', g, n, props]
  ['upd_link', g, a, b, kind, p, v] ['unset_link', g, a, b, kind, p] ['upd_link_props', g, a, b, kind, props]
  ['get_node', g, n] ['get_link', g, a, b] ['by_class', g, c] ['by_class_type', g, c, t] ['list_ids', g]
  ['node_exists', g, n, c] ['unique', g, c, name] ['graph_exists', g] ['matching', g, g2]
  ['merge', g, n, g2, policy|None]   policy = {prop: 'discard'|'overwrite'|'combine'|'bogus'}
"""
import copy, json
from .common import cN, clist, copt, stable_hash

# ----------------------------------------------------------------------------------------------
# the symbol table (one namespace; the first entries are the names the code treats specially and
# are fixed in Model/Store.v / regenerated into Gen/PGConst.v)
# ----------------------------------------------------------------------------------------------
SPECIAL = {'GraphID': 0, 'NodeID': 1, 'Class': 2, 'Type': 3, 'Name': 4, 'contraction': 5, 'StitchNode': 6}
GIDS = ['g0', 'g1', 'g2', 'g3']
NIDS = ['n0', 'n1', 'n2', 'n3', 'n4', 'n5']
CLASSES = ['c0', 'c1', 'c2']
TYPES = ['t0', 't1']
RELS = ['r0', 'r1']
PROPS = ['p0', 'p1', 'p2']
VALS = ['v0', 'v1', 'v2', 'v3']
POLICIES = ['discard', 'overwrite', 'combine', 'bogus']
SYM = dict(SPECIAL)
for base, names in ((10, GIDS), (20, NIDS), (30, CLASSES), (36, TYPES), (40, RELS), (50, PROPS), (60, VALS),
                    (70, POLICIES)):
    for i, s in enumerate(names):
        SYM[s] = base + i
assert len(set(SYM.values())) == len(SYM)
UNSYM = {v: k for k, v in SYM.items()}

# The strings the LIBRARY sees.  Histories, replays and the Coq terms use the symbolic names above; at the
# boundary to the real code every graph id, node id, class, type, relation and value is replaced by a real string
# from vocabularies that contain SUBSTRING-RELATED members ('site-1' / 'site-10' / 'site-1-copy', 'a' / 'aa',
# 'Port' / 'TrunkPort', 'has' / 'has-a'): identifiers are compared as whole strings, never by containment.
REAL = {'g0': 'site-1', 'g1': 'site-10', 'g2': 'site-1-copy', 'g3': 's',
        'n0': 'a', 'n1': 'aa', 'n2': 'aa-b', 'n3': 'b', 'n4': 'ab', 'n5': 'aab',
        'c0': 'Node', 'c1': 'NodeX', 'c2': 'Nod', 't0': 'Port', 't1': 'TrunkPort',
        'r0': 'has', 'r1': 'has-a', 'v0': 'v', 'v1': 'vv', 'v2': 'v-2', 'v3': 'x'}
UNREAL = {v: k for k, v in REAL.items()}
assert len(UNREAL) == len(REAL) and not (set(UNREAL) & set(SYM))


def R(x):
    """symbolic -> real strings, everywhere except dictionary keys (property names stay as they are)"""
    if isinstance(x, str):
        return REAL.get(x, x)
    if isinstance(x, (list, tuple)):
        return [R(y) for y in x]
    if isinstance(x, dict):
        return {k: R(v) for k, v in x.items()}
    return x


def sym(x):
    return SYM[UNREAL.get(x, x)]

EXN = {'PropertyGraphQueryException': 'EQuery', 'PropertyGraphImportException': 'EImport', 'KeyError': 'EKey',
       'AssertionError': 'EAssert', 'AttributeError': 'EAttr', 'RuntimeError': 'ERuntime', 'TypeError': 'EType'}

MUTATORS = {'import', 'import_direct', 'del_graph', 'clone', 'add_node', 'del_node', 'add_link', 'upd_node',
            'unset_node', 'upd_nodes', 'upd_node_props', 'upd_link', 'unset_link', 'upd_link_props', 'merge'}


def importer_equiv(op):
    """what an importer call ['imp', g, nodes, edges, how, fmt] amounts to at the storage level by the documented
    contract: ['refused', g] when the importer must raise before the storage is touched (an empty graph; for the
    direct entry points a node without GraphID or more than one GraphID in the file - ABCGraphImporter.get_graph_id),
    else the add_graph / add_graph_direct call on the parsed graph"""
    _, g, nodes, edges, how, fmt = op
    if not nodes:
        return ['refused', g]
    if how.endswith('direct'):
        gids = [d.get('GraphID') for _, d in nodes]
        if any(x is None for x in gids) or len(set(gids)) != 1:
            return ['refused', g]
        return ['import_direct', gids[0], nodes, edges]
    return ['import', g, nodes, edges]


def none_value(op):
    """update_node_property / update_nodes_property / update_link_property with prop_val=None: refused by `assert prop_val
    is not None` before anything is looked at"""
    return (op[0] == 'upd_node' and op[4] is None) or (op[0] == 'upd_nodes' and op[3] is None) or \
           (op[0] == 'upd_link' and op[6] is None)


def norm_op(op):
    if op[0] == 'imp':
        return importer_equiv(op)
    if none_value(op):
        return ['refused', op[1]]
    return op


def target(op):
    """graph id an operation writes to"""
    return op[2] if op[0] == 'clone' else op[1]


def writes_key(op, key):
    """does the operation write property `key` on a node (identity re-writing)"""
    k = op[0]
    if k == 'upd_node':
        return op[3] == key
    if k == 'upd_nodes':
        return op[2] == key
    if k == 'upd_node_props':
        return key in op[3]
    if k == 'add_node':
        return op[4] is not None and key in op[4]
    if k == 'merge':
        return op[4] is not None and op[4].get(key) in ('overwrite', 'combine', 'bogus')
    if k == 'import_direct':
        return any(nd[1].get('GraphID') != op[1] for nd in op[2]) if key == 'GraphID' else False
    return False


def rehomes(op):
    return writes_key(op, 'GraphID')


# ----------------------------------------------------------------------------------------------
# canonical (JSON-able) forms
# ----------------------------------------------------------------------------------------------

def cv(v):
    """python property value -> canonical pval: int | None | ['L', [...]] | ['C', [[a, b, props]...]]"""
    if v is None:
        return None
    if isinstance(v, str):
        return sym(v)
    if isinstance(v, (list, tuple)):
        return ['L', [cv(x) for x in v]]
    if isinstance(v, dict):     # networkx 'contraction' edge attribute {(prev_w, prev_x): edge dict}
        return ['C', sorted([[int(k[0]), int(k[1]), cprops(d)] for k, d in v.items()])]
    raise TypeError('value outside the modelled universe: %r' % (v,))


def cprops(d):
    return sorted([[SYM[k], cv(v)] for k, v in d.items()], key=lambda kv: kv[0])


def canon_graph(G):
    """nx.Graph -> [nodes in order [[id, props]], edges sorted [[a, b, props]] with a <= b]"""
    nodes = [[int(n), cprops(d)] for n, d in G.nodes(data=True)]
    edges = sorted([[min(int(a), int(b)), max(int(a), int(b)), cprops(d)] for a, b, d in G.edges(data=True)],
                   key=lambda e: (e[0], e[1]))
    return [nodes, edges]


def sort_vals(l):
    return sorted(l, key=lambda x: json.dumps(x, sort_keys=True))


# ----------------------------------------------------------------------------------------------
# the driver
# ----------------------------------------------------------------------------------------------

class Backend:
    """kind = 'shared' | 'disjoint'.  A fresh singleton store per history."""

    def __init__(self, kind):
        import networkx as nx
        self.nx = nx
        self.kind = kind
        if kind == 'shared':
            from fim.graph import networkx_property_graph as m
            m.NetworkXGraphStorage.storage_instance = None
            self.imp = m.NetworkXGraphImporter()
            self.cls = m.NetworkXPropertyGraph
        else:
            from fim.graph import networkx_property_graph_disjoint as m
            m.NetworkXGraphStorageDisjoint.storage_instance = None
            self.imp = m.NetworkXGraphImporterDisjoint()
            self.cls = m.NetworkXPropertyGraphDisjoint
        self.storage = self.imp.storage

    def graph(self, g, handle=0):
        """LONG-LIVED graph objects: one primary handle per graph id for the whole history, plus a second handle
        (also long-lived) that some steps use - client code keeps such objects around, so whatever they remember
        must stay true when the graph is changed through another route"""
        if not hasattr(self, 'handles'):
            self.handles = {}
        if (g, handle) not in self.handles:
            self.handles[(g, handle)] = self.cls(graph_id=R(g), importer=self.imp)
        return self.handles[(g, handle)]

    def importer_call(self, op):
        """['imp', g, nodes, edges, how, fmt]: the four importer entry points on a serialised graph"""
        import json as _json, tempfile, os as _os
        _, g, nodes, edges, how, fmt = op
        g = R(g)
        G = self.nx.Graph()
        for key, d in nodes:
            G.add_node(str(key), **R(dict(d)))
        for a, b, d in edges:
            G.add_edge(str(a), str(b), **R(dict(d)))
        text = '\n'.join(self.nx.generate_graphml(G)) if fmt == 'graphml' else _json.dumps(self.nx.readwrite.node_link_data(G))
        if how == 'string':
            self.imp.import_graph_from_string(graph_string=text, graph_id=g)
        elif how == 'string_direct':
            self.imp.import_graph_from_string_direct(graph_string=text)
        else:
            fd, path = tempfile.mkstemp(suffix='-' + fmt)
            try:
                with _os.fdopen(fd, 'w') as f:
                    f.write(text)
                if how == 'file':
                    self.imp.import_graph_from_file(graph_file=path, graph_id=g)
                else:
                    self.imp.import_graph_from_file_direct(graph_file=path)
            finally:
                _os.remove(path)
        return ['unit']

    def mk_nx(self, nodes, edges):
        G = self.nx.Graph()
        for key, d in nodes:
            G.add_node(key, **R(dict(d)))
        for a, b, d in edges:
            G.add_edge(a, b, **R(dict(d)))
        return G

    def call(self, op, step=0):
        k = op[0]
        # every 5th step goes through the second long-lived handle (for delete graph: through the importer)
        alt = step % 5 == 3
        if k == 'imp':
            return self.importer_call(op)
        sop, op = op, [op[0]] + [R(a) for a in op[1:]]       # the library sees the real strings
        if k == 'import':
            self.storage.add_graph(graph_id=op[1], graph=self.mk_nx(op[2], op[3]))
            return ['unit']
        if k == 'import_direct':
            self.storage.add_graph_direct(graph_id=op[1], graph=self.mk_nx(op[2], op[3]))
            return ['unit']
        G = self.graph(sop[1], 1 if alt else 0)
        if k == 'del_graph':
            if alt:
                self.imp.delete_graph(graph_id=op[1])
            else:
                G.delete_graph()
            return ['unit']
        if k == 'clone':
            G.clone_graph(new_graph_id=op[2])
            return ['unit']
        if k == 'add_node':
            G.add_node(node_id=op[2], label=op[3], props=copy.deepcopy(op[4]))
            return ['unit']
        if k == 'del_node':
            G.delete_node(node_id=op[2])
            return ['unit']
        if k == 'add_link':
            G.add_link(node_a=op[2], rel=op[3], node_b=op[4], props=copy.deepcopy(op[5]))
            return ['unit']
        if k == 'upd_node':
            G.update_node_property(node_id=op[2], prop_name=op[3], prop_val=op[4])
            return ['unit']
        if k == 'unset_node':
            G.unset_node_property(node_id=op[2], prop_name=op[3])
            return ['unit']
        if k == 'upd_nodes':
            G.update_nodes_property(prop_name=op[2], prop_val=op[3])
            return ['unit']
        if k == 'upd_node_props':
            G.update_node_properties(node_id=op[2], props=copy.deepcopy(op[3]))
            return ['unit']
        if k == 'upd_link':
            G.update_link_property(node_a=op[2], node_b=op[3], kind=op[4], prop_name=op[5], prop_val=op[6])
            return ['unit']
        if k == 'unset_link':
            G.unset_link_property(node_a=op[2], node_b=op[3], kind=op[4], prop_name=op[5])
            return ['unit']
        if k == 'upd_link_props':
            G.update_link_properties(node_a=op[2], node_b=op[3], kind=op[4], props=copy.deepcopy(op[5]))
            return ['unit']
        if k == 'get_node':
            labels, props = G.get_node_properties(node_id=op[2])
            assert len(labels) == 1
            return ['node', cv(labels[0]), cprops(props)]
        if k == 'get_link':
            kind, props = G.get_link_properties(node_a=op[2], node_b=op[3])
            return ['link', cv(kind), cprops(props)]
        if k == 'by_class':
            return ['vals', sort_vals([cv(x) for x in G.get_all_nodes_by_class(label=op[2])])]
        if k == 'by_class_type':
            return ['vals', sort_vals([cv(x) for x in G.get_all_nodes_by_class_and_type(label=op[2], ntype=op[3])])]
        if k == 'list_ids':
            return ['vals', sort_vals([cv(x) for x in G.list_all_node_ids()])]
        if k == 'node_exists':
            return ['bool', bool(G.node_exists(node_id=op[2], label=op[3]))]
        if k == 'unique':
            return ['bool', bool(G.check_node_unique(label=op[2], name=op[3]))]
        if k == 'graph_exists':
            return ['bool', bool(G.graph_exists())]
        if k == 'matching':
            return ['vals', sort_vals([cv(x) for x in G.find_matching_nodes(other_graph=self.graph(sop[2], 1 if alt else 0))])]
        if k == 'merge':
            G.merge_nodes(op[2], self.graph(sop[3], 1 if alt else 0), copy.deepcopy(op[4]))
            return ['unit']
        raise ValueError(op)

    def snapshot(self):
        if self.kind == 'shared':
            return canon_graph(self.storage.get_graph(None))
        out = []
        for gid, G in self.storage.storage_instance.graphs.items():
            if len(G.nodes) > 0:
                out.append([sym(gid), canon_graph(G)])
        return sorted(out, key=lambda e: e[0])


def counters(b):
    """the id allocator(s) of the store: start_id, resp. sorted [[gid, next id]]"""
    st = b.storage.storage_instance
    if b.kind == 'shared':
        if hasattr(st, 'start_id'):
            return int(st.start_id)
        return max([int(n) for n in st.graphs.nodes] + [0]) + 1          # allocator not observable: next free id
    if hasattr(st, 'graph_node_ids'):
        return sorted([sym(g), int(v)] for g, v in st.graph_node_ids.items())
    return sorted([sym(g), max([int(n) for n in G.nodes] + [0]) + 1] for g, G in st.graphs.items())


def probe(b, gids):
    """every graph seen through the PUBLIC listing operations (a third long-lived handle per id): list_all_node_ids and
    get_all_nodes_by_class for every class; an exception is recorded by its class"""
    out = {}
    for g in gids:
        G = b.graph(g, 2)
        d = {}
        for name, f in [('ids', lambda: G.list_all_node_ids())] + \
                       [(c, (lambda c=c: G.get_all_nodes_by_class(label=R(c)))) for c in CLASSES]:
            try:
                d[name] = sort_vals([cv(x) for x in f()])
            except BaseException as e:
                d[name] = 'ERR:' + EXN.get(type(e).__name__, 'EOther')
        out[str(SYM[g])] = d
    return out


def probe_expected(view):
    """what the listings must answer for a graph whose (raw) content is `view` = [nodes, links]; None = unknown (a node
    without NodeID makes the listing raise)"""
    nodes = view[0] if view else []
    if any(pget(n[1], NID) == 'ABSENT' for n in nodes):
        return None
    d = {'ids': sort_vals([pget(n[1], NID) for n in nodes]) if nodes else 'ERR:EQuery'}
    for c in CLASSES:
        d[c] = sort_vals([pget(n[1], NID) for n in nodes if pget(n[1], CLS) == SYM[c]])
    return d


def probe_check(kind, snap, pr, gids):
    """the public listings of every graph agree with the graph's stored content"""
    vw = views(kind, snap)
    for g in gids:
        want = probe_expected(vw.get(SYM[g]))
        got = pr.get(str(SYM[g]))
        if want is not None and got is not None and got != want:
            for name in want:
                if got.get(name) != want[name]:
                    what = 'list_all_node_ids' if name == 'ids' else 'get_all_nodes_by_class(%s)' % name
                    return '%s of graph %s answers %s, the graph holds %s' % (
                        what, g, json.dumps(got.get(name)), json.dumps(want[name]))
    return None


def run_history(kind, ops, probes=True):
    """-> list of {'r': ['ok', rval] | ['err', cls], 's': snapshot | None (= unchanged), 'n': allocator(s),
    'p': public listings of every graph after the step}"""
    b = Backend(kind)
    out = []
    last = [[], []] if kind == 'shared' else []      # the empty store
    for step, op in enumerate(ops):
        op_in = copy.deepcopy(op)
        try:
            r = ['ok', b.call(op, step)]
        except BaseException as e:     # the class is the observation; messages are never compared
            r = ['err', EXN.get(type(e).__name__, 'EOther'), type(e).__name__]
        assert op == op_in, 'operation arguments were modified by the call'
        try:
            snap = b.snapshot()
        except BaseException as e:     # content outside the modelled universe (e.g. a cyclic attribute value)
            out.append({'r': r, 's': None, 'bad': type(e).__name__})
            break
        ob = {'r': r, 's': None if snap == last else snap, 'n': counters(b)}
        if probes:
            ob['p'] = probe(b, GIDS[:3])
        out.append(ob)
        last = snap
    return out


def uncanonical(obs):
    for i, o in enumerate(obs):
        if o.get('bad'):
            return 'step %d: the store content could not be canonicalised (%s): values outside the modelled universe' % (i, o['bad'])
    return None


def snapshots(obs, empty):
    """expand the 'unchanged' markers: list of snapshots after each step"""
    out, last = [], empty
    for o in obs:
        if o['s'] is not None:
            last = o['s']
        out.append(last)
    return out


# ----------------------------------------------------------------------------------------------
# printers to Coq (Model/Store.v types)
# ----------------------------------------------------------------------------------------------

def q_pval(v):
    if v is None:
        return 'PNone'
    if isinstance(v, int):
        return '(PV %s)' % cN(v)
    if v[0] == 'L':
        return '(PL %s)' % clist([q_pval(x) for x in v[1]])
    if v[0] == 'C':
        return '(PC %s)' % clist(['(%s, %s, %s)' % (cN(a), cN(b), q_props(d)) for a, b, d in v[1]])
    raise TypeError(v)


def q_props(ps):
    return clist(['(%s, %s)' % (cN(k), q_pval(v)) for k, v in ps])


def q_dict(d):
    """python dict of the case (strings) -> props term"""
    return q_props(cprops(d))


def q_nodes(nodes):
    return clist(['(%s, %s)' % (cN(i), q_props(ps)) for i, ps in nodes])


def q_edges(edges):
    return clist(['(%s, %s, %s)' % (cN(a), cN(b), q_props(ps)) for a, b, ps in edges])


def q_nxg(g):
    return '(mkG %s %s)' % (q_nodes(g[0]), q_edges(g[1]))


def q_igraph(nodes, edges):
    return '(mkI %s %s)' % (clist(['(%s, %s)' % (cN(k), q_dict(d)) for k, d in nodes]),
                            clist(['(%s, %s, %s)' % (cN(a), cN(b), q_dict(d)) for a, b, d in edges]))


def s(x):
    return cN(SYM[x])


def q_op(op):
    k = op[0]
    od = lambda d: copt(d, q_dict)
    if k == 'imp' or none_value(op):
        return q_op(norm_op(op))
    if k == 'refused':
        return '(OGraphExists %s)' % s(op[1])      # changes nothing, whatever the store holds
    if k == 'import':
        return '(OImport %s %s)' % (s(op[1]), q_igraph(op[2], op[3]))
    if k == 'import_direct':
        return '(OImportDirect %s %s)' % (s(op[1]), q_igraph(op[2], op[3]))
    if k == 'del_graph':
        return '(ODelGraph %s)' % s(op[1])
    if k == 'clone':
        return '(OClone %s %s)' % (s(op[1]), s(op[2]))
    if k == 'add_node':
        return '(OAddNode %s %s %s %s)' % (s(op[1]), s(op[2]), s(op[3]), od(op[4]))
    if k == 'del_node':
        return '(ODelNode %s %s)' % (s(op[1]), s(op[2]))
    if k == 'add_link':
        return '(OAddLink %s %s %s %s %s)' % (s(op[1]), s(op[2]), s(op[3]), s(op[4]), od(op[5]))
    if k == 'upd_node':
        return '(OUpdNode %s %s %s %s)' % (s(op[1]), s(op[2]), s(op[3]), q_pval(cv(op[4])))
    if k == 'unset_node':
        return '(OUnsetNode %s %s %s)' % (s(op[1]), s(op[2]), s(op[3]))
    if k == 'upd_nodes':
        return '(OUpdNodes %s %s %s)' % (s(op[1]), s(op[2]), q_pval(cv(op[3])))
    if k == 'upd_node_props':
        return '(OUpdNodeProps %s %s %s)' % (s(op[1]), s(op[2]), q_dict(op[3]))
    if k == 'upd_link':
        return '(OUpdLink %s %s %s %s %s %s)' % (s(op[1]), s(op[2]), s(op[3]), s(op[4]), s(op[5]), q_pval(cv(op[6])))
    if k == 'unset_link':
        return '(OUnsetLink %s %s %s %s %s)' % (s(op[1]), s(op[2]), s(op[3]), s(op[4]), s(op[5]))
    if k == 'upd_link_props':
        return '(OUpdLinkProps %s %s %s %s %s)' % (s(op[1]), s(op[2]), s(op[3]), s(op[4]), q_dict(op[5]))
    if k == 'get_node':
        return '(OGetNode %s %s)' % (s(op[1]), s(op[2]))
    if k == 'get_link':
        return '(OGetLink %s %s %s)' % (s(op[1]), s(op[2]), s(op[3]))
    if k == 'by_class':
        return '(OByClass %s %s)' % (s(op[1]), s(op[2]))
    if k == 'by_class_type':
        return '(OByClassType %s %s %s)' % (s(op[1]), s(op[2]), s(op[3]))
    if k == 'list_ids':
        return '(OListIds %s)' % s(op[1])
    if k == 'node_exists':
        return '(ONodeExists %s %s %s)' % (s(op[1]), s(op[2]), s(op[3]))
    if k == 'unique':
        return '(OUnique %s %s %s)' % (s(op[1]), s(op[2]), s(op[3]))
    if k == 'graph_exists':
        return '(OGraphExists %s)' % s(op[1])
    if k == 'matching':
        return '(OMatching %s %s)' % (s(op[1]), s(op[2]))
    if k == 'merge':
        pol = copt(op[4], lambda d: clist(['(%s, %s)' % (cN(a), cN(b)) for a, b in
                                           sorted((SYM[k2], SYM[v2]) for k2, v2 in d.items())]))
        return '(OMerge %s %s %s %s)' % (s(op[1]), s(op[2]), s(op[3]), pol)
    raise ValueError(op)


def q_res(r):
    if r[0] == 'err':
        return '(Err %s)' % r[1]
    v = r[1]
    if v[0] == 'unit':
        return '(Ok RUnit)'
    if v[0] == 'bool':
        return '(Ok (RBool %s))' % ('true' if v[1] else 'false')
    if v[0] == 'vals':
        return '(Ok (RVals %s))' % clist([q_pval(x) for x in v[1]])
    if v[0] == 'node':
        return '(Ok (RNode %s %s))' % (q_pval(v[1]), q_props(v[2]))
    if v[0] == 'link':
        return '(Ok (RLink %s %s))' % (q_pval(v[1]), q_props(v[2]))
    raise ValueError(r)


def q_snap(kind, snap):
    if snap is None:
        return 'None'
    if kind == 'shared':
        return '(Some %s)' % q_nxg(snap)
    return '(Some %s)' % clist(['(%s, %s)' % (cN(g), q_nxg(G)) for g, G in snap])


def q_steps(kind, ops, obs):
    return clist(['(%s, %s, %s)' % (q_op(op), q_res(o['r']), q_snap(kind, o['s'])) for op, o in zip(ops, obs)])


# ----------------------------------------------------------------------------------------------
# views over snapshots (implementation observables only; used by the oracles)
# ----------------------------------------------------------------------------------------------
GID = SPECIAL['GraphID']
NID = SPECIAL['NodeID']
CLS = SPECIAL['Class']


def pget(props, k):
    for kk, v in props:
        if kk == k:
            return v
    return 'ABSENT'


def views(kind, snap):
    """snapshot -> {gid(int): [nodes [[id, props]], edges [[a,b,props]]]} : what each graph id can see.
    shared: nodes carrying GraphID == gid, edges with both ends among them; disjoint: the per-id graph
    (nodes filtered by GraphID as every query does)."""
    out = {}
    if kind == 'shared':
        nodes, edges = snap if snap else ([], [])
        for n in nodes:
            g = pget(n[1], GID)
            if isinstance(g, int):
                out.setdefault(g, [[], []])[0].append(n)
        for g, (ns, es) in out.items():
            ids = {n[0] for n in ns}
            es.extend(e for e in edges if e[0] in ids and e[1] in ids)
    else:
        for g, (nodes, edges) in (snap or []):
            ns = [n for n in nodes if pget(n[1], GID) == g]
            ids = {n[0] for n in ns}
            out[g] = [ns, [e for e in edges if e[0] in ids and e[1] in ids]]
    return {g: v for g, v in out.items() if v[0]}


def api_view(view):
    """a graph's content without internal ids: nodes as sorted property lists, edges by the NodeIDs of
    their end points (what a client of the property-graph interface can observe)"""
    ns, es = view
    nid = {n[0]: json.dumps(None if pget(n[1], NID) == 'ABSENT' else pget(n[1], NID)) for n in ns}
    nodes = sorted(json.dumps(n[1]) for n in ns)
    edges = sorted(json.dumps([sorted([nid[e[0]], nid[e[1]]]), e[2]]) for e in es)
    return [nodes, edges]


# ----------------------------------------------------------------------------------------------
# generators
# ----------------------------------------------------------------------------------------------

def gen_props(rng, extra_keys=(), pmax=2):
    d = {}
    for _ in range(rng.randrange(pmax + 1)):
        d[rng.choice(PROPS)] = rng.choice(VALS)
    for k in extra_keys:
        d[k[0]] = rng.choice(k[1])
    return d


def gen_igraph(rng, g, direct=False, malformed=0.1, gids=GIDS, nids=NIDS):
    k = rng.choice([0, 1, 1, 2, 2, 3, 3, 4])
    style = rng.randrange(3)
    if style == 0:
        keys = list(range(1, k + 1))                 # collide with the store's internal ids
    elif style == 1:
        keys = rng.sample(range(1, 12), k)
    else:
        keys = list(range(100, 100 + k))
    ids = rng.sample(nids, k) if k <= len(nids) else [rng.choice(nids) for _ in range(k)]
    nodes = []
    for i, key in enumerate(keys):
        d = {}
        r = rng.random()
        if r < malformed * 0.5:
            pass                                       # NodeID missing
        elif r < malformed and i > 0:
            d['NodeID'] = ids[0]                       # duplicate NodeID inside the imported graph
        else:
            d['NodeID'] = ids[i]
        if rng.random() < 0.92:
            d['Class'] = rng.choice(CLASSES[:2])
        if rng.random() < 0.4:
            d['Type'] = rng.choice(TYPES)
        if rng.random() < 0.4:
            d['Name'] = rng.choice(VALS)
        if direct:
            d['GraphID'] = g
        elif rng.random() < 0.3:
            d['GraphID'] = rng.choice(gids)            # overwritten by the stamping
        d.update(gen_props(rng, pmax=1))
        nodes.append([key, d])
    edges = []
    pairs = [(a, b) for i, a in enumerate(keys) for b in keys[i + 1:]]
    rng.shuffle(pairs)
    for a, b in pairs[:rng.randrange(0, len(pairs) + 1) if pairs else 0]:
        d = {}
        if rng.random() < 0.95:
            d['Class'] = rng.choice(RELS)
        d.update(gen_props(rng, pmax=1))
        edges.append([a, b, d] if rng.random() < 0.5 else [b, a, d])
    return nodes, edges


class Shadow:
    """what the generator believes exists (only used to bias the choices towards valid calls)"""

    def __init__(self):
        self.nodes = {}     # g -> set of node ids
        self.links = {}     # g -> set of (a, b, rel)

    def some_node(self, rng, g, nids):
        s = sorted(self.nodes.get(g, ()))
        if s and rng.random() < 0.85:
            return rng.choice(s)
        return rng.choice(nids)

    def some_link(self, rng, g, nids):
        s = sorted(self.links.get(g, ()))
        if s and rng.random() < 0.8:
            a, b, r = rng.choice(s)
            if rng.random() < 0.5:
                a, b = b, a
            if rng.random() < 0.3:
                r = rng.choice(RELS)       # possibly the WRONG kind: the kind-checked link operations must refuse
            return a, b, r
        return rng.choice(nids), rng.choice(nids), rng.choice(RELS)

    def apply(self, op):
        op = norm_op(op)
        k = op[0]
        g = op[1]
        if k in ('import', 'import_direct'):
            self.nodes[g] = {d['NodeID'] for _, d in op[2] if 'NodeID' in d}
            key2id = {key: d.get('NodeID') for key, d in op[2]}
            self.links[g] = {(key2id[a], key2id[b], d.get('Class', RELS[0])) for a, b, d in op[3]
                             if key2id[a] and key2id[b]}
        elif k == 'del_graph':
            self.nodes.pop(g, None)
            self.links.pop(g, None)
        elif k == 'clone':
            self.nodes[op[2]] = set(self.nodes.get(g, ()))
            self.links[op[2]] = set(self.links.get(g, ()))
        elif k == 'add_node':
            self.nodes.setdefault(g, set()).add(op[2])
        elif k == 'del_node':
            self.nodes.get(g, set()).discard(op[2])
            self.links[g] = {l for l in self.links.get(g, ()) if op[2] not in l[:2]}
        elif k == 'add_link':
            self.links[g] = {l for l in self.links.get(g, ()) if {l[0], l[1]} != {op[2], op[4]}}
            self.links[g].add((op[2], op[4], op[3]))
        elif k == 'merge':
            self.nodes.get(op[3], set()).discard(op[2])


DEFAULT_WEIGHTS = {
    'import': 6, 'import_direct': 2, 'del_graph': 3, 'clone': 4, 'add_node': 16, 'del_node': 5, 'add_link': 12,
    'upd_node': 7, 'unset_node': 5, 'upd_nodes': 3, 'upd_node_props': 4, 'upd_link': 4, 'unset_link': 3,
    'upd_link_props': 3, 'get_node': 4, 'get_link': 3, 'by_class': 2, 'by_class_type': 2, 'list_ids': 3,
    'node_exists': 2, 'unique': 2, 'graph_exists': 2, 'matching': 2, 'merge': 3,
}


def gen_op(rng, sh, kinds, weights, gids, nids, identity_rate=0.04, malformed=0.1, prefer_fresh=0.0, none_rate=0.1):
    k = rng.choices(kinds, weights)[0]
    live = sorted(g for g, s in sh.nodes.items() if s)
    g = rng.choice(live) if live and rng.random() < 0.8 else rng.choice(gids)
    node = lambda: sh.some_node(rng, g, nids)

    def pname(for_unset=False):
        r = rng.random()
        if r < identity_rate:
            return rng.choice(['GraphID', 'NodeID'])
        if r < identity_rate + (0.25 if for_unset else 0.08):
            return rng.choice(['Class', 'Type', 'Name', 'Class'])
        if r < 0.35:
            return rng.choice(['Type', 'Name'])
        return rng.choice(PROPS)

    def pvalue(p):
        if p == 'GraphID':
            return rng.choice(gids)
        if p == 'NodeID':
            return rng.choice(nids)
        if p == 'Class':
            return rng.choice(CLASSES)
        if p == 'Type':
            return rng.choice(TYPES)
        return rng.choice(VALS)

    def pdict():
        d = {}
        for _ in range(rng.randrange(3)):
            p = pname()
            # a None value in a dictionary-valued setter is STORED as None (it never clears a property)
            d[p] = None if rng.random() < none_rate else pvalue(p)
        return d

    if k in ('import', 'import_direct'):
        if rng.random() < 0.5:
            g = rng.choice(gids)
        dead = [x for x in gids if x not in live]
        if rng.random() < prefer_fresh:
            if not dead and k == 'import':
                return ['del_graph', g]
            if dead:
                g = rng.choice(dead)
        nodes, edges = gen_igraph(rng, g, direct=(k == 'import_direct'), malformed=malformed, gids=gids, nids=nids)
        return [k, g, nodes, edges]
    if k == 'del_graph':
        return [k, g]
    if k == 'clone':
        dead = [x for x in gids if x not in live]
        if dead and rng.random() < prefer_fresh:
            return [k, g, rng.choice(dead)]
        return [k, g, rng.choice(gids)]
    if k == 'add_node':
        if rng.random() < 0.7:
            g = rng.choice(gids) if rng.random() < 0.4 else g
        n = rng.choice(nids) if rng.random() < 0.75 else node()
        props = None if rng.random() < 0.35 else pdict()
        return [k, g, n, rng.choice(CLASSES[:2]), props]
    if k == 'del_node':
        return [k, g, node()]
    if k == 'add_link':
        a, b = node(), node()
        props = None if rng.random() < 0.5 else pdict()
        return [k, g, a, rng.choice(RELS), b, props]
    if k == 'upd_node':
        p = pname()
        return [k, g, node(), p, None if rng.random() < none_rate / 2 else pvalue(p)]
    if k == 'unset_node':
        return [k, g, node(), pname(True)]
    if k == 'upd_nodes':
        p = pname()
        return [k, g, p, None if rng.random() < none_rate / 2 else pvalue(p)]
    if k == 'upd_node_props':
        return [k, g, node(), pdict()]
    if k in ('upd_link', 'unset_link', 'upd_link_props'):
        a, b, r = sh.some_link(rng, g, nids)
        p = pname(k == 'unset_link')
        if p in ('GraphID', 'NodeID'):
            p = rng.choice(PROPS)
        if k == 'upd_link':
            return [k, g, a, b, r, p, None if rng.random() < none_rate / 2 else pvalue(p)]
        if k == 'unset_link':
            return [k, g, a, b, r, p]
        return [k, g, a, b, r, pdict()]
    if k == 'get_node':
        return [k, g, node()]
    if k == 'get_link':
        a, b, _ = sh.some_link(rng, g, nids)
        return [k, g, a, b]
    if k == 'by_class':
        return [k, g, rng.choice(CLASSES)]
    if k == 'by_class_type':
        return [k, g, rng.choice(CLASSES[:2]), rng.choice(TYPES)]
    if k == 'list_ids':
        return [k, g]
    if k == 'node_exists':
        return [k, g, node(), rng.choice(CLASSES[:2])]
    if k == 'unique':
        return [k, g, rng.choice(CLASSES[:2]), rng.choice(VALS)]
    if k == 'graph_exists':
        return [k, rng.choice(gids)]
    if k == 'matching':
        others = [x for x in (live or gids) if x != g] or gids
        return [k, g, rng.choice(others) if rng.random() < 0.85 else rng.choice(gids)]
    if k == 'merge':
        others = [x for x in gids if x != g]
        g2 = rng.choice([x for x in others if x in live] or others)
        common = sorted(sh.nodes.get(g, set()) & sh.nodes.get(g2, set()))
        n = rng.choice(common) if common and rng.random() < 0.85 else node()
        pol = None
        if rng.random() < 0.6:
            pol = {}
            for _ in range(rng.randrange(1, 4)):
                p = rng.choice(PROPS + ['Name', 'Type'] + (['Class'] if rng.random() < 0.1 else []))
                pol[p] = rng.choices(POLICIES, [4, 3, 3, 1])[0]
        return [k, g, n, g2, pol]
    raise ValueError(k)


def gen_history(rng, depth, weights=None, gids=GIDS[:3], nids=NIDS[:5], identity_rate=0.04, malformed=0.1,
                exclude=(), prefer_fresh=0.0):
    w = dict(DEFAULT_WEIGHTS)
    if weights:
        w.update(weights)
    kinds = [k for k in w if k not in exclude and w[k] > 0]
    ws = [w[k] for k in kinds]
    sh = Shadow()
    ops = []
    # build-up: a few imports / node additions first so that later operations hit something
    for _ in range(rng.randrange(0, 4)):
        g = rng.choice(gids)
        if rng.random() < 0.5 and 'import' in kinds:
            nodes, edges = gen_igraph(rng, g, malformed=malformed / 2, gids=gids, nids=nids)
            op = ['import', g, nodes, edges]
        else:
            op = ['add_node', g, rng.choice(nids), rng.choice(CLASSES[:2]), None]
        sh.apply(op)
        ops.append(op)
    while len(ops) < depth:
        op = gen_op(rng, sh, kinds, ws, gids, nids, identity_rate, malformed, prefer_fresh)
        sh.apply(op)
        ops.append(op)
    return ops


def merge_scenario(rng, extra=6):
    """two graphs with overlapping node ids and links, then every matching node merged (the pattern
    of a broker merging advertisements): exercises shared neighbours / the 'contraction' bookkeeping"""
    ga, gb = rng.sample(GIDS[:3], 2)
    ops = []
    ids = rng.sample(NIDS[:5], 4)
    sh = Shadow()
    for g, mine in ((ga, ids[:3]), (gb, ids[1:])):
        for n in mine:
            ops.append(['add_node', g, n, rng.choice(CLASSES[:2]), gen_props(rng, [('Name', VALS)] if rng.random() < .5 else ())])
        for i in range(len(mine) - 1):
            if rng.random() < 0.8:
                ops.append(['add_link', g, mine[i], rng.choice(RELS), mine[i + 1], gen_props(rng, pmax=1) or None])
        if rng.random() < 0.5:
            ops.append(['add_link', g, mine[0], rng.choice(RELS), mine[-1], None])
    selfl = [n for n in ids[1:3] if rng.random() < 0.35]
    for n in selfl:                       # a self-link on a node that will be absorbed (or on the survivor)
        ops.append(['add_link', rng.choice([ga, gb]), n, rng.choice(RELS), n, gen_props(rng, pmax=1) or None])
    for op in ops:
        sh.apply(op)
    ops.append(['matching', ga, gb])
    order = ids[1:3]
    rng.shuffle(order)
    for n in order:
        pol = None
        if rng.random() < 0.7:
            pol = {p: rng.choices(POLICIES, [4, 3, 3, 1])[0] for p in rng.sample(PROPS + ['Name'], rng.randrange(1, 3))}
        ops.append(['merge', ga, n, gb, pol])
        ops.append(['get_node', ga, n])
        if n in selfl:
            ops.append(['get_link', ga, n, n])
    ops.append(['get_link', ga, ids[1], ids[2]])
    kinds = [k for k in DEFAULT_WEIGHTS]
    ws = [DEFAULT_WEIGHTS[k] for k in kinds]
    for _ in range(extra):
        op = gen_op(rng, sh, kinds, ws, GIDS[:3], NIDS[:5])
        sh.apply(op)
        ops.append(op)
    return ops


def shrink_history(ops, failing):
    """delta debugging over the operation list, then simplification of import graphs"""
    ops = list(ops)
    n = len(ops)
    # cut the tail first (failing(prefix))
    lo = 1
    while lo < len(ops) and not failing(ops[:lo]):
        lo += 1
    ops = ops[:lo]
    chunk = max(1, len(ops) // 2)
    while chunk >= 1:
        i = 0
        while i < len(ops):
            cand = ops[:i] + ops[i + chunk:]
            if cand and failing(cand):
                ops = cand
            else:
                i += chunk
        chunk //= 2
    for i, op in enumerate(ops):
        if op[0] in ('import', 'import_direct'):
            for j in range(len(op[3]) - 1, -1, -1):
                cand = ops[:i] + [[op[0], op[1], op[2], op[3][:j] + op[3][j + 1:]]] + ops[i + 1:]
                if failing(cand):
                    ops = cand
                    op = ops[i]
        if op[0] in ('add_node', 'add_link') and op[-1]:
            cand = ops[:i] + [op[:-1] + [None]] + ops[i + 1:]
            if failing(cand):
                ops = cand
    return ops


def op_histogram(cases, obs_lists):
    h = {'ops': {}, 'errors': {}, 'lengths': {}, 'steps': 0, 'state_changing_steps': 0}
    for ops, obs in zip(cases, obs_lists):
        h['lengths'][str(len(ops) // 5 * 5)] = h['lengths'].get(str(len(ops) // 5 * 5), 0) + 1
        for op, o in zip(ops, obs):
            h['steps'] += 1
            h['ops'][op[0]] = h['ops'].get(op[0], 0) + 1
            if o['r'][0] == 'err':
                key = op[0] + ':' + o['r'][1]
                h['errors'][key] = h['errors'].get(key, 0) + 1
            if o['s'] is not None:
                h['state_changing_steps'] += 1
    return h


def q_iso_steps(kind, ops, obs):
    """C04's cases: (op, result, snapshot | unchanged, allocator state after the step)"""
    out = []
    for op, o in zip(ops, obs):
        if o.get('bad'):
            break
        n = cN(o['n']) if kind == 'shared' else clist(['(%s, %s)' % (cN(g), cN(v)) for g, v in o['n']])
        out.append('(%s, %s, %s, %s)' % (q_op(op), q_res(o['r']), q_snap(kind, o['s']), n))
    return clist(out)


def cross_link_scenario(rng, extra=8):
    """PRE-STATE with cross-graph links, built through the real API: two graphs share node ids, the other graph's
    shared nodes have neighbours of their own, merge_nodes moves those links onto this graph's nodes (the window
    before the other graph's nodes are re-homed).  Then the graphs on either side (and a third one) are cloned,
    deleted, re-imported, matched and modified: extract / clone must see exactly a graph's own nodes and the links
    with BOTH ends in it."""
    ga, gb, gc = rng.sample(GIDS[:3], 3)
    shared = rng.sample(NIDS[:5], rng.choice([1, 1, 2]))
    rest = [n for n in NIDS[:5] if n not in shared]
    rng.shuffle(rest)
    ops = []
    for n in shared:
        ops.append(['add_node', ga, n, rng.choice(CLASSES[:2]), gen_props(rng, pmax=1) or None])
    if rng.random() < 0.6:
        ops.append(['add_node', ga, rest[0], rng.choice(CLASSES[:2]), None])
        ops.append(['add_link', ga, shared[0], rng.choice(RELS), rest[0], None])
    for n in shared:
        ops.append(['add_node', gb, n, rng.choice(CLASSES[:2]), None])
    nb = rest[1:1 + rng.choice([1, 2])]
    for n in nb:
        ops.append(['add_node', gb, n, rng.choice(CLASSES[:2]), None])
        ops.append(['add_link', gb, rng.choice(shared), rng.choice(RELS), n, gen_props(rng, pmax=1) or None])
    if len(shared) == 2 and rng.random() < 0.5:
        ops.append(['add_link', gb, shared[0], rng.choice(RELS), shared[1], None])
    if rng.random() < 0.5:
        ops.append(['add_node', gc, rng.choice(NIDS[:5]), rng.choice(CLASSES[:2]), None])
    for n in (shared if rng.random() < 0.7 else shared[:1]):
        ops.append(['merge', ga, n, gb, None if rng.random() < 0.6 else {rng.choice(PROPS): 'discard'}])
    sh = Shadow()
    for op in ops:
        sh.apply(op)
    w = dict(DEFAULT_WEIGHTS, merge=0, clone=30, del_graph=6, **{'import': 8}, matching=6, add_node=6, del_node=5,
             add_link=4, list_ids=3, graph_exists=2, import_direct=2)
    kinds = [k for k in w if w[k] > 0]
    ws = [w[k] for k in kinds]
    first = [['clone', ga, gc], ['clone', gb, gc], ['clone', ga, ga], ['matching', gc, ga], ['del_graph', gb], ['del_graph', ga]]
    ops.append(rng.choice(first))
    sh.apply(ops[-1])
    for _ in range(extra):
        op = gen_op(rng, sh, kinds, ws, GIDS[:3], NIDS[:5], identity_rate=0.0, malformed=0.05)
        sh.apply(op)
        ops.append(op)
    return ops


def gen_importer_op(rng, gids=GIDS[:3], nids=NIDS[:5], live=()):
    """an importer entry point on a serialised generated graph; the direct variants sometimes carry MIXED GraphIDs
    (first node names one graph, a later node another, preferably one that lives in the store) or lack a GraphID"""
    how = rng.choice(['string', 'string_direct', 'file', 'file_direct', 'string_direct'])
    fmt = rng.choice(['graphml', 'json'])
    g = rng.choice(gids)
    nodes, edges = gen_igraph(rng, g, direct=how.endswith('direct'), malformed=0.05, gids=gids, nids=nids)
    if how.endswith('direct') and nodes:
        r = rng.random()
        if r < 0.35 and len(nodes) >= 1:
            others = [x for x in (list(live) or gids) if x != g] or [x for x in gids if x != g]
            j = rng.randrange(1, len(nodes)) if len(nodes) > 1 else 0
            if j > 0:
                nodes[j][1]['GraphID'] = rng.choice(others)
        elif r < 0.42:
            nodes[rng.randrange(len(nodes))][1].pop('GraphID', None)
    return ['imp', g, nodes, edges, how, fmt]


def emptying_scenario(rng, extra=4):
    """a graph is asked whether it exists, then loses its last node by a route other than its own delete_graph
    (delete_node of each node, a merge that absorbs its only node, delete through another handle / the importer),
    with graph_exists / node_exists / listings asked again and again around it"""
    ga, gb = rng.sample(GIDS[:3], 2)
    na = rng.sample(NIDS[:5], rng.choice([1, 1, 2]))
    ops = []
    for n in na:
        ops.append(['add_node', ga, n, rng.choice(CLASSES[:2]), None])
    ops.append(['add_node', gb, na[0], rng.choice(CLASSES[:2]), None])
    ask = lambda g: [['graph_exists', g], ['list_ids', g], ['node_exists', g, na[0], CLASSES[0]], ['by_class', g, CLASSES[0]]]
    ops += [['graph_exists', ga], ['graph_exists', gb]] + rng.sample(ask(ga), 2)
    route = rng.choice(['del_nodes', 'merge', 'del_graph', 'del_nodes'])
    if route == 'del_nodes':
        for n in na:
            ops.append(['del_node', ga, n])
            ops.append(['graph_exists', ga])
    elif route == 'merge':
        for n in na[1:]:
            ops.append(['del_node', ga, n])
        ops.append(['merge', gb, na[0], ga, None])
    else:
        while len(ops) % 5 != 3:                       # the step that goes through the importer / second handle
            ops.append(rng.choice(ask(ga)))
        ops.append(['del_graph', ga])
    ops += [['graph_exists', ga]] + ask(ga)
    ops.append(['merge', gb, na[0], ga, None])         # the other graph must exist for a merge
    ops.append(['matching', gb, ga])
    ops.append(['add_node', ga, na[0], CLASSES[0], None])
    ops.append(['graph_exists', ga])
    kinds = [k for k in DEFAULT_WEIGHTS]
    ws = [DEFAULT_WEIGHTS[k] for k in kinds]
    sh = Shadow()
    for op in ops:
        sh.apply(op)
    for _ in range(extra):
        op = gen_op(rng, sh, kinds, ws, GIDS[:3], NIDS[:5], identity_rate=0.0, malformed=0.0, prefer_fresh=0.8)
        sh.apply(op)
        ops.append(op)
    return ops


def late_add_scenario(rng, extra=5):
    """graph A exists; graph B is stored (import, clone or node by node); THEN a node is added to A; A is listed,
    bulk-updated and read node by node; B is deleted; A is listed again"""
    ga, gb, gc = rng.sample(GIDS[:3], 3)
    na = rng.sample(NIDS[:5], 3)
    ops = [['add_node', ga, na[0], rng.choice(CLASSES[:2]), None]]
    if rng.random() < 0.5:
        ops.append(['add_node', ga, na[1], rng.choice(CLASSES[:2]), None])
    how = rng.choice(['import', 'clone', 'add'])
    if how == 'import':
        nodes, edges = gen_igraph(rng, gb, malformed=0.0)
        ops.append(['import', gb, nodes or [[1, {'NodeID': na[0], 'Class': CLASSES[0]}]], edges if nodes else []])
    elif how == 'clone':
        ops.append(['clone', ga, gb])
    else:
        ops.append(['add_node', gb, rng.choice(NIDS[:5]), rng.choice(CLASSES[:2]), None])
    ops.append(['add_node', ga, na[2], rng.choice(CLASSES[:2]), gen_props(rng, pmax=1) or None])
    ops += [['list_ids', ga], ['by_class', ga, CLASSES[0]], ['upd_nodes', ga, rng.choice(PROPS), rng.choice(VALS)]]
    ops += [['get_node', ga, n] for n in na if rng.random() < 0.8]
    ops += [['matching', ga, gb], ['del_graph', gb], ['list_ids', ga], ['upd_nodes', ga, rng.choice(PROPS), rng.choice(VALS)]]
    kinds = [k for k in DEFAULT_WEIGHTS if k != 'merge']
    ws = [DEFAULT_WEIGHTS[k] for k in kinds]
    sh = Shadow()
    for op in ops:
        sh.apply(op)
    for _ in range(extra):
        op = gen_op(rng, sh, kinds, ws, GIDS[:3], NIDS[:5], identity_rate=0.0, malformed=0.0)
        sh.apply(op)
        ops.append(op)
    return ops


def delete_then_add_scenario(rng, extra=4):
    """a graph with links (built node by node, imported or cloned) loses a node that is NOT its newest one, then gets
    a new node: every surviving node keeps its properties and its links, the new node has none"""
    g, g2 = rng.sample(GIDS[:3], 2)
    ns = rng.sample(NIDS[:5], 4)
    ops = []
    how = rng.choice(['add', 'import', 'clone'])
    props = lambda: gen_props(rng, [('Name', VALS)] if rng.random() < 0.5 else (), pmax=1)
    if how == 'import':
        nodes = [[i + 1, dict(props(), NodeID=n, Class=rng.choice(CLASSES[:2]))] for i, n in enumerate(ns[:3])]
        ops.append(['import', g, nodes, [[1, 2, {'Class': RELS[0]}], [2, 3, {'Class': RELS[1], 'p0': 'v1'}], [1, 3, {'Class': RELS[0]}]]])
    else:
        src = g2 if how == 'clone' else g
        for n in ns[:3]:
            ops.append(['add_node', src, n, rng.choice(CLASSES[:2]), props() or None])
        ops += [['add_link', src, ns[0], RELS[0], ns[1], None], ['add_link', src, ns[1], RELS[1], ns[2], {'p0': 'v1'}],
                ['add_link', src, ns[0], RELS[0], ns[2], None]]
        if how == 'clone':
            ops.append(['clone', g2, g])
    ops.append(['del_node', g, rng.choice(ns[:2])])            # not the newest node
    ops.append(['add_node', g, ns[3], rng.choice(CLASSES[:2]), props() or None])
    ops += [['list_ids', g]] + [['get_node', g, n] for n in ns] + [['get_link', g, ns[1], ns[2]], ['get_link', g, ns[0], ns[2]],
                                                                  ['get_link', g, ns[3], ns[2]]]
    if rng.random() < 0.5:
        ops += [['del_node', g, ns[2]], ['add_node', g, ns[0] if ns[0] not in () else ns[1], CLASSES[0], None], ['list_ids', g]]
    kinds = [k for k in DEFAULT_WEIGHTS if k != 'merge']
    ws = [DEFAULT_WEIGHTS[k] for k in kinds]
    sh = Shadow()
    for op in ops:
        sh.apply(op)
    for _ in range(extra):
        op = gen_op(rng, sh, kinds, ws, GIDS[:3], NIDS[:5], identity_rate=0.0, malformed=0.0)
        sh.apply(op)
        ops.append(op)
    return ops

"""C07 history generator: state-aware random histories of topology-building calls.  The generator drives the
real API while it generates (to know which elements exist), so every reference in the produced case is
meaningful at the point of the call; roughly `invalid` of the calls are deliberately wrong (duplicate name or
id, missing id in a substrate topology, absent element, bad name, wrong interface kind, unknown model, ...).
A history ends early at the first rule violation seen by the Python oracle (behaviour after a violated
invariant is outside the property)."""
from . import topo7_driver as D
from . import topo7_oracle as O

NODE_TYPES = ['Server', 'VM', 'Container', 'Switch', 'NAS', 'Facility']
COMP_MODELS = [('GPU', 'RTX6000'), ('GPU', 'Tesla T4'), ('SmartNIC', 'ConnectX-6'), ('SmartNIC', 'ConnectX-5'),
               ('SharedNIC', 'ConnectX-6'), ('SharedNIC', 'OpenStack-vNIC'), ('NVME', 'P4510'),
               ('FPGA', 'Xilinx-U280'), ('SmartNIC', 'BlueField-2-ConnectX-6'), ('Storage', 'NAS'), ('FPGA', 'Xilinx-SN1022'),
               ('GPU', 'A30'), ('GPU', 'A40')]
NIFS = {'SmartNIC': 2, 'SharedNIC': 1, 'FPGA': 2}
SERVICE_TYPES = ['P4', 'MPLS', 'OVS', 'L2Path', 'L2STS', 'L2PTP', 'L2Multisite', 'L2Bridge', 'FABNetv4', 'FABNetv6',
                 'PortMirror', 'L3VPN', 'VLAN', 'FABNetv4Ext', 'FABNetv6Ext']
LINK_TYPES = ['Patch', 'L1Path', 'L2Path']
SITES = ['S1', 'S2', 'S3']


class Gen:
    def __init__(self, rng, flavour, invalid=0.2, avoid=()):
        self.rng = rng
        self.flavour = flavour
        self.invalid = invalid
        self.avoid = set(avoid)     # op kinds / features not to generate (used by the clean stream)
        self.cnt = 0
        self.kept = set()    # ids of the services whose add_* call returned a handle the driver keeps
        self.bases = []      # ids b such that some element already carries a derived id b-ns / b-int / b-int1
        self.snap = {'nodes': [], 'edges': []}
        self.g = O.G(self.snap)

    # ------------------------------------------------------------------ helpers
    def fresh(self, p):
        self.cnt += 1
        return '%s%d' % (p, self.cnt)

    def bad(self):
        return self.rng.random() < self.invalid

    def new_id(self, p='x'):
        """caller-supplied id (always for substrate, sometimes for experiment), None = library-generated"""
        if self.rng.random() < 0.04:
            # an id that a later add_facility / add_switch with node_id=b will derive: a LATER step of that call fails
            b = self.fresh('q')
            self.bases.append(b)
            return b + self.rng.choice(['-ns', '-int', '-int0', '-int1', '-int2'])
        if self.flavour == 'sub':
            if self.bad():
                return self.rng.choice([None, self.some_id()])
            return self.fresh(p)
        r = self.rng.random()
        if r < 0.7:
            return None
        if r < 0.75 and self.g.nodes:
            return self.some_id()
        return self.fresh('y')

    def some_id(self):
        return self.rng.choice(self.g.nodes)[0] if self.g.nodes else 'zz'

    def new_name(self, p, cls):
        r = self.rng.random()
        if cls == O.NS and 'strand' in self.avoid:
            return self.fresh(p)     # service names distinct over the whole topology (network_services view finding)
        if self.bad():
            k = self.rng.randrange(4)
            ex = [n[3] for n in self.g.nodes if n[1] == cls and n[3]]
            if k == 0 and ex:
                return self.rng.choice(ex)             # duplicate name
            if k == 1:
                return self.rng.choice(['q', 'a b', 'a:b', 'a+b', 'x/y', 'bad!', ''])   # per-class name syntax
            if k == 2:
                anyn = [n[3] for n in self.g.nodes if n[3]]
                if anyn:
                    return self.rng.choice(anyn)       # name of an element of another class
        if r < 0.15:
            return self.fresh(p) + self.rng.choice(['-a', '.b', '_c', '-1'])
        if cls == O.NODE and 0.88 < r <= 0.96 and 'strand' not in self.avoid:
            # names that contain the separator the code itself uses to derive names: node 'aa-bb' + NIC 'cc' and node
            # 'aa' + NIC 'bb-cc' derive the same service-port and link names (see op_add_component / op_connect)
            used = set(n[3] for n in self.g.nodes)
            free = [x for x in self.DASH_NODES if x not in used]
            if free:
                return free[0]
        if cls == O.NODE and r > 0.96 and 'strand' not in self.avoid:
            # a long (valid) node name: with a component name chosen below the derived service-port name
            # <node>-<comp>-p1 stays valid while the derived link name <...>-link is too long
            return (self.fresh(p) + 'L' * 200)[:200]
        return self.fresh(p)

    DASH_NODES = ('aa-bb', 'aa', 'aa-bb-cc', 'aa-bb.x')

    def derived(self, i):
        """the name connect_interface derives for the service port of interface i: <owner node>-<interface>"""
        g = self.g
        j, seen = i, 0
        while g.typ(j) == 'SubInterface' and seen < 4:
            ps = [k for k in g.nb(j, 'connects', O.CP) if g.typ(k) != 'SubInterface']
            if len(ps) != 1:
                return None
            j, seen = ps[0], seen + 1
        ss = g.nb(j, 'connects', O.NS)
        if len(ss) != 1:
            return None
        o = g.has_owner(ss[0])
        if len(o) == 1 and g.cls(o[0]) == O.COMP:
            o = g.has_owner(o[0])
        if len(o) != 1 or g.name(o[0]) is None or g.name(i) is None:
            return None
        return g.name(o[0]) + '-' + g.name(i)

    def ids(self, cls, pred=None):
        return [n[0] for n in self.g.nodes if n[1] == cls and (pred is None or pred(n))]

    def pick(self, l):
        return self.rng.choice(l) if l else None

    def node_ifaces(self, kinds=None):
        """interfaces of nodes/components/facilities (not service ports, not sub-interfaces)"""
        g = self.g
        out = []
        for i in g.ids(O.CP):
            t = g.typ(i)
            if t in ('ServicePort', 'SubInterface'):
                continue
            if kinds and t not in kinds:
                continue
            out.append(i)
        return out

    def connected(self, i):
        return len(self.g.peers(i)) > 0

    # ------------------------------------------------------------------ op constructors (return args or None)
    def op_add_node(self):
        nt = self.rng.choice(['VM', 'VM', 'Server', 'Server', 'Container', 'Switch', 'NAS'] if not self.bad() else NODE_TYPES)
        return ['add_node', self.new_name('n', O.NODE), self.new_id(), self.rng.choice(SITES), nt]

    def op_remove_node(self):
        names = [n[3] for n in self.g.nodes if n[1] == O.NODE and (n[2] != 'Facility' or self.bad())]
        if self.bad() or not names:
            return ['remove_node', self.rng.choice(['nope', self.fresh('n')] + names[:1])]
        return ['remove_node', self.rng.choice(names)]

    def op_add_component(self):
        nodes = self.ids(O.NODE, lambda n: n[2] != 'Facility' or self.bad())
        if not nodes:
            return None
        n = self.rng.choice(nodes)
        ct, model = self.rng.choice(COMP_MODELS)
        longn = [x for x in nodes if len(self.g.name(x) or '') >= 150 and not self.g.nb(x, 'has', O.COMP)]
        if longn:
            n = longn[0]                      # a NIC for the node with the long name (see new_name)
            ct, model = self.rng.choice([c for c in COMP_MODELS if NIFS.get(c[0], 0)])
        if self.bad():
            model = self.rng.choice(['NoSuchModel', 'ConnectX-6', 'RTX6000'])
        cid = self.new_id('c')
        ns_id, if_ids = None, None
        if self.flavour == 'sub' or self.rng.random() < 0.15:
            k = NIFS.get(ct, 0)
            if k and not (self.bad() and self.rng.random() < 0.5):
                ns_id = self.fresh('s') if not self.bad() else self.some_id()
                if_ids = [self.fresh('i') for _ in range(k if not self.bad() else self.rng.choice([0, 1, 3]))]
                if self.bad() and if_ids:
                    if_ids[-1] = self.rng.choice([if_ids[0], self.some_id(), ns_id])
        name = self.new_name('c', O.COMP)
        sib = [self.g.name(c) for c in self.g.nb(n, 'has', O.COMP) if self.g.name(c)]
        if sib and self.rng.random() < 0.12:
            name = self.rng.choice(sib)        # sibling name: must be refused
        dashn = [x for x in nodes if self.g.name(x) in self.DASH_NODES and not self.g.nb(x, 'has', O.COMP)]
        if dashn and not longn:
            n = dashn[0]
            ct, model = self.rng.choice([c for c in COMP_MODELS if NIFS.get(c[0], 0)])
            if self.flavour == 'sub' or ns_id is not None:
                ns_id, if_ids = self.fresh('s'), [self.fresh('i') for _ in range(NIFS.get(ct, 0))]
            name = {'aa-bb': 'cc', 'aa': 'bb-cc', 'aa-bb-cc': 'dd', 'aa-bb.x': 'cc'}[self.g.name(n)]
        nn = self.g.name(n) or ''
        if len(nn) >= 150 and len(name) < 20:
            name = (name + 'M' * 100)[:247 - len(nn)]      # <node>-<comp>-p1 is 251 characters long
        return ['add_component', n, name, cid, ct, model, ns_id, if_ids]

    def op_add_storage(self):
        nodes = self.ids(O.NODE, lambda n: n[2] != 'Facility')
        if not nodes:
            return None
        return ['add_storage', self.rng.choice(nodes), self.new_name('st', O.COMP), self.new_id('c')]

    def op_remove_component(self):
        comps = self.ids(O.COMP)
        if not comps:
            return None
        c = self.rng.choice(comps)
        own = self.g.has_owner(c)
        if not own:
            return None
        name = self.g.name(c)
        if self.bad():
            if self.rng.random() < 0.5:
                name = 'nope'
            else:
                own = [self.rng.choice(self.ids(O.NODE))]
        return ['remove_component', own[0], name]

    def op_add_facility(self):
        name = self.new_name('f', O.NODE)
        r = self.rng.random()
        if r < 0.4:
            ifn = None
        else:
            k = self.rng.choice([1, 2, 2, 3])
            ifn = [self.fresh('fp') for _ in range(k)]
            if k > 1 and self.rng.random() < 0.15:
                ifn[-1] = ifn[0]
        fid = self.new_id('f')
        if self.bases and self.rng.random() < 0.4:
            fid = self.bases.pop()
        return ['add_facility', name, fid, self.rng.choice(SITES), ifn]

    def op_remove_facility(self):
        names = [n[3] for n in self.g.nodes if n[1] == O.NODE and (n[2] == 'Facility' or self.bad())]
        if not names:
            return ['remove_facility', 'nope'] if self.bad() else None
        return ['remove_facility', self.rng.choice(names)]

    def op_add_switch(self):
        wid = self.new_id('w')
        if self.bases and self.rng.random() < 0.4:
            wid = self.bases.pop()
        return ['add_switch', self.new_name('sw', O.NODE), wid, self.rng.choice(SITES),
                self.rng.choice([0, 1, 2, 2, 3])]

    def op_remove_switch(self):
        names = [n[3] for n in self.g.nodes if n[1] == O.NODE and (n[2] == 'Switch' or self.bad())]
        if not names:
            return ['remove_switch', 'nope'] if self.bad() else None
        return ['remove_switch', self.rng.choice(names)]

    def service_type(self):
        return self.rng.choice(SERVICE_TYPES)

    def op_add_ns(self):
        free = [i for i in self.node_ifaces() if not self.connected(i)]
        subs = [i for i in self.ids(O.CP) if self.g.typ(i) == 'SubInterface' and not self.connected(i)]
        pool = free + subs
        k = self.rng.choice([0, 1, 2, 2, 3])
        self.rng.shuffle(pool)
        ifs = pool[:k]
        if self.bad() and self.g.ids(O.CP):
            ifs = ifs + [self.rng.choice(self.g.ids(O.CP))]     # possibly connected already / a service port
        return ['add_ns', self.new_name('s', O.NS), self.new_id('s'), self.service_type(), ifs]

    def op_add_pm(self):
        pool = [i for i in self.node_ifaces() if not self.connected(i) or self.bad()]
        if not pool:
            return None
        return ['add_pm', self.new_name('pm', O.NS), self.new_id('s'), 'some-port', self.rng.choice(pool)]

    def op_remove_ns(self):
        g = self.g
        top = [i for i in g.ids(O.NS) if not g.has_owner(i)]
        if 'strand' in self.avoid:
            cand = top
        else:
            cand = top * 4 + g.ids(O.NS)
        if self.bad() or not cand:
            return ['remove_ns', self.rng.choice(['nope'] + [g.name(i) for i in g.ids(O.NS)][:2])]
        return ['remove_ns', g.name(self.rng.choice(cand))]

    def op_node_add_ns(self):
        nodes = self.ids(O.NODE)
        if not nodes:
            return None
        n = self.rng.choice(nodes)
        name = self.new_name('ns', O.NS)
        sib = [self.g.name(c) for c in self.g.nb(n, 'has', O.NS) if self.g.name(c)]
        if sib and self.rng.random() < 0.12:
            name = self.rng.choice(sib)        # sibling name: must be refused
        return ['node_add_ns', n, name, self.new_id('s'), self.service_type()]

    def op_stale_add_iface(self):
        """add_interface through the kept handle of a service that has been removed since"""
        if 'strand' in self.avoid:
            return None
        alive = set(self.g.ids(O.NS))
        gone = sorted(self.kept - alive)
        if not gone:
            return None
        return ['stale_add_iface', self.rng.choice(gone), self.fresh('p'), self.new_id('i'),
                self.rng.choice(['TrunkPort', 'AccessPort'])]

    def op_node_remove_ns(self):
        g = self.g
        cand = [(o, i) for i in g.ids(O.NS) for o in g.has_owner(i) if g.cls(o) == O.NODE]
        if 'strand' in self.avoid:
            cand = [(o, i) for (o, i) in cand if not any(g.peers(c) for c in g.nb(i, 'connects', O.CP))]
        if not cand:
            return None
        o, i = self.rng.choice(cand)
        return ['node_remove_ns', o, g.name(i) if not self.bad() else 'nope']

    def op_add_link(self):
        pool = self.node_ifaces()
        if self.bad():
            pool = [i for i in self.g.ids(O.CP) if self.g.typ(i) != 'ServicePort']
        if len(pool) < 1:
            return None
        self.rng.shuffle(pool)
        k = self.rng.choice([2, 2, 2, 3, 1, 0] if self.bad() else [2, 2, 2, 3])
        name = self.new_name('l', O.LINK)
        top = [s for s in self.g.ids(O.NS) if not self.g.has_owner(s) and self.g.name(s)]
        if len(top) >= 2 and self.rng.random() < 0.08 and 'strand' not in self.avoid:
            a, b = self.rng.sample(top, 2)
            name = self.g.name(a) + '-' + self.g.name(b) + '-link'     # the name peer(a, b) derives for its link
        elif 'strand' not in self.avoid and self.rng.random() < 0.08:
            un = [self.derived(i) for i in self.node_ifaces() if not self.connected(i)]
            un = [d for d in un if d and len(d) < 60]
            if un:
                name = self.rng.choice(un) + '-link'                   # the name connect_interface will derive for a link
        ifs = pool[:k]
        if 'strand' not in self.avoid and self.rng.random() < 0.07:
            other = [n[0] for n in self.g.nodes if n[1] != O.CP]
            if other:                  # a handle that is not an interface (a node, component, service or link)
                ifs = ifs[:1] + [self.rng.choice(other)] if self.rng.random() < 0.5 else [self.rng.choice(other), self.rng.choice(other)]
        return ['add_link', name, self.new_id('l'), self.rng.choice(LINK_TYPES), ifs]

    def op_remove_link(self):
        g = self.g
        links = g.ids(O.LINK)
        if 'strand' in self.avoid:
            links = [l for l in links if not any(g.typ(c) == 'ServicePort' for c in g.nb(l, 'connects', O.CP))]
        if self.bad() or not links:
            return ['remove_link', 'nope']
        return ['remove_link', g.name(self.rng.choice(links))]

    def op_connect(self):
        g = self.g
        ss = g.ids(O.NS)
        top = [s for s in ss if not g.has_owner(s)]
        pool = [i for i in self.node_ifaces() if not self.connected(i)]
        pool += [i for i in g.ids(O.CP) if g.typ(i) == 'SubInterface' and not self.connected(i)]
        if self.bad():
            pool = g.ids(O.CP)
            top = ss
        if not top or not pool:
            return None
        if 'strand' not in self.avoid and len(top) >= 1:
            # an unconnected interface whose derived port name is already carried by a service port of ANOTHER service,
            # or whose derived link name is carried by a link: connect it (to a service that has no such port)
            taken = {}
            for sp in g.ids(O.CP):
                if g.typ(sp) == 'ServicePort' and g.name(sp):
                    taken.setdefault(g.name(sp), set()).update(g.nb(sp, 'connects', O.NS))
            lnames = set(g.name(l) for l in g.ids(O.LINK))
            for i in pool:
                d = self.derived(i)
                if d is None:
                    continue
                if d in taken or (d + '-link') in lnames:
                    cand = [s for s in top if s not in taken.get(d, ())]
                    if cand and self.rng.random() < 0.8:
                        return ['connect', self.rng.choice(cand), i]
            dash = [i for i in pool if (self.derived(i) or '').startswith('aa')]
            if dash and self.rng.random() < 0.6:
                return ['connect', self.rng.choice(top), self.rng.choice(dash)]
        longs = [i for i in pool if len(g.name(i) or '') >= 40]
        if longs and self.rng.random() < 0.5:
            pool = longs        # the derived link name is too long: the call fails after the port was made
        return ['connect', self.rng.choice(top), self.rng.choice(pool)]

    def op_disconnect(self):
        g = self.g
        pairs = []
        for sp in g.ids(O.CP):
            if g.typ(sp) == 'ServicePort':
                for (l, y) in g.peers(sp):
                    if g.typ(y) == 'ServicePort':
                        continue
                    for s in g.nb(sp, 'connects', O.NS):
                        pairs.append((s, y))
        anyif = [i for i in g.ids(O.CP) if g.typ(i) != 'ServicePort']
        if self.bad() and g.ids(O.NS) and anyif:
            return ['disconnect', self.rng.choice(g.ids(O.NS)), self.rng.choice(anyif)]
        if 'strand' not in self.avoid and self.rng.random() < 0.12:
            pp = [(s, sp) for sp in g.ids(O.CP) if g.typ(sp) == 'ServicePort'
                  and any(g.typ(y) == 'ServicePort' for (_, y) in g.peers(sp)) for s in g.nb(sp, 'connects', O.NS)]
            if pp:                     # the service's own peering port
                return ['disconnect'] + list(self.rng.choice(pp))
        if not pairs:
            return None
        return ['disconnect'] + list(self.rng.choice(pairs))

    def op_peer(self):
        g = self.g
        top = [s for s in g.ids(O.NS) if not g.has_owner(s) or self.bad()]
        if len(top) < 2:
            return None
        a, b = self.rng.sample(top, 2)
        lnames = set(g.name(l) for l in g.ids(O.LINK))
        taken = [(x, y) for x in top for y in top if x != y and g.name(x) and g.name(y)
                 and (g.name(x) + '-' + g.name(y) + '-link') in lnames]
        if taken and 'strand' not in self.avoid:
            a, b = self.rng.choice(taken)        # the derived link name is in use (see op_add_link)
        if self.rng.random() < 0.06 and 'strand' not in self.avoid:
            b = a            # a service peered with itself
        return ['peer', a, b]

    def op_unpeer(self):
        g = self.g
        pairs = []
        for sp in g.ids(O.CP):
            if g.typ(sp) == 'ServicePort':
                for (l, y) in g.peers(sp):
                    if g.typ(y) == 'ServicePort':
                        for s in g.nb(sp, 'connects', O.NS):
                            for s2 in g.nb(y, 'connects', O.NS):
                                pairs.append((s, s2))
        if 'unpeer_bad' not in self.avoid and (self.bad() or not pairs) and len(g.ids(O.NS)) >= 2:
            a, b = self.rng.sample(g.ids(O.NS), 2)
            return ['unpeer', a, b]
        if not pairs:
            return None
        return ['unpeer'] + list(self.rng.choice(pairs))

    def op_add_sub(self):
        g = self.g
        pool = self.node_ifaces(kinds=('DedicatedPort',))
        if self.bad():
            pool = g.ids(O.CP)
        if not pool:
            return None
        self.cnt += 1
        vlan = 100 + self.cnt          # distinct per call: vlan clashes depend on label values, which are not modelled
        if self.bad() and self.rng.random() < 0.4:
            vlan = None
        port = self.rng.choice(pool)
        name = self.new_name('sub', O.CP)
        kids = [g.name(c) for c in g.nb(port, 'connects', O.CP) if g.name(c)]
        if kids and self.rng.random() < 0.2:
            name = self.rng.choice(kids)       # sibling name: must be refused
        return ['add_sub', port, name, self.new_id('i'), vlan]

    def op_remove_sub(self):
        g = self.g
        subs = [i for i in g.ids(O.CP) if g.typ(i) == 'SubInterface']
        if 'strand' in self.avoid:
            subs = [i for i in subs if not g.peers(i)]
        if not subs:
            return None
        s = self.rng.choice(subs)
        par = [j for j in g.nb(s, 'connects', O.CP)]
        if not par:
            return None
        return ['remove_sub', par[0], g.name(s) if not self.bad() else 'nope']

    def some_elem(self):
        g = self.g
        if not g.nodes:
            return None
        n = self.rng.choice(g.nodes)
        kind = {O.NODE: 'node', O.COMP: 'comp', O.NS: 'ns', O.LINK: 'link', O.CP: 'iface'}.get(n[1])
        if kind is None:
            return None
        if self.bad() and self.rng.random() < 0.3:
            kind = self.rng.choice(['node', 'comp', 'ns', 'link', 'iface'])
        return [kind, n[0]], n

    def same_node_other_scope_name(self, i):
        """the name of another interface of the node that owns interface i, living in a different service: a legal
        new name for i (names are unique per service) that makes two interfaces of one node share a name"""
        g = self.g
        svc = g.nb(i, 'connects', O.NS)
        if len(svc) != 1:
            return None
        own = g.has_owner(svc[0])
        if len(own) == 1 and g.cls(own[0]) == O.COMP:
            own = g.has_owner(own[0])
        if len(own) != 1:
            return None
        others = []
        for s2 in g.nb(own[0], 'has', O.NS):
            if s2 != svc[0]:
                others += g.nb(s2, 'connects', O.CP)
        for c in g.nb(own[0], 'has', O.COMP):
            for s2 in g.nb(c, 'has', O.NS):
                if s2 != svc[0]:
                    others += g.nb(s2, 'connects', O.CP)
        mine = [g.name(c) for c in g.nb(svc[0], 'connects', O.CP)]
        names = [g.name(c) for c in others if g.name(c) and g.name(c) not in mine]
        return self.rng.choice(names) if names else None

    def scope_sibling_name(self, i):
        """the name of ANOTHER element of the scope of i as the rules define it (class + owner set; ordinary nodes and
        facilities are both NetworkNode elements of the one topology scope): a rename to it must be refused"""
        g = self.g
        sc = g.scope(i)
        names = [n[3] for n in g.nodes if n[0] != i and n[3] and g.scope(n[0]) == sc and n[3] != g.name(i)]
        return self.rng.choice(names) if names else None

    def op_rename(self):
        e = self.some_elem()
        if not e:
            return None
        ref, n = e
        if self.rng.random() < 0.35:
            cands = self.node_ifaces()
            self.rng.shuffle(cands)
            for i in cands[:6]:
                nm = self.same_node_other_scope_name(i)
                if nm:
                    if self.rng.random() < 0.25:
                        return ['set_prop', ['iface', i], self.rng.choice(['name', 'names']), nm]
                    return ['rename', ['iface', i], nm]
        if 'rename_dup' not in self.avoid and self.rng.random() < 0.2:
            # prefer a node when there is a facility (Topology.nodes hides facilities, the scope does not)
            facs = [x for x in self.g.nodes if x[1] == O.NODE and x[2] == 'Facility']
            cand = [x for x in self.g.nodes if x[1] == O.NODE] if facs and self.rng.random() < 0.6 else [n]
            x = self.rng.choice(cand)
            nm = self.scope_sibling_name(x[0])
            if x[1] == O.NODE and facs and self.rng.random() < 0.7:
                others = [f[3] for f in facs if f[0] != x[0] and f[3]]
                nm = self.rng.choice(others) if others else nm
            kind = {O.NODE: 'node', O.COMP: 'comp', O.NS: 'ns', O.LINK: 'link', O.CP: 'iface'}.get(x[1])
            if nm and kind:
                if self.rng.random() < 0.4:
                    return ['set_prop', [kind, x[0]], self.rng.choice(['name', 'names']), nm]
                return ['rename', [kind, x[0]], nm]
        if 'rename_dup' in self.avoid:
            new = self.fresh('r')
            if self.bad():
                new = self.rng.choice(['q', 'a b', 'a:b', 'bad!', new])
        else:
            new = self.new_name('r', n[1])
        return ['rename', ref, new]

    def op_set_prop(self):
        e = self.some_elem()
        if not e:
            return None
        ref, n = e
        p = self.rng.choice(['site', 'capacities', 'labels', 'details', 'name', 'name', 'names', 'type_node'])
        if p in ('name', 'names'):
            code = self.fresh('r') if 'rename_dup' in self.avoid else self.new_name('r', n[1])
        elif p == 'site':
            code = self.rng.choice(SITES)
        elif p == 'capacities':
            code = self.rng.choice([1, 2, 4])
        elif p == 'labels':
            code = self.rng.choice([100, 200])
        elif p == 'type_node':
            if ref[0] != 'node':
                p, code = 'details', 'd'
            else:
                code = self.rng.choice(['Server', 'VM', 'Switch', 'NAS', 'Container', 'Facility'])
        else:
            code = self.rng.choice(['d1', 'd2'])
        return ['set_prop', ref, p, code]

    def op_unset_prop(self):
        e = self.some_elem()
        if not e:
            return None
        ref, n = e
        p = self.rng.choice(['site', 'capacities', 'labels', 'details', 'name', 'type', 'nosuch', 'labels'])
        return ['unset_prop', ref, p]

    WEIGHTS = [('add_node', 10), ('remove_node', 3), ('add_component', 10), ('add_storage', 2), ('remove_component', 3),
               ('add_facility', 3), ('remove_facility', 2), ('add_switch', 3), ('remove_switch', 2),
               ('add_ns', 7), ('add_pm', 2), ('remove_ns', 3), ('node_add_ns', 2), ('node_remove_ns', 1),
               ('add_link', 4), ('remove_link', 2), ('connect', 8), ('disconnect', 4), ('peer', 3), ('unpeer', 2),
               ('add_sub', 4), ('remove_sub', 2), ('rename', 4), ('set_prop', 3), ('unset_prop', 2), ('stale_add_iface', 1)]

    def next_op(self, tag):
        kinds = [k for k, w in self.WEIGHTS if k not in self.avoid for _ in range(w)]
        for _ in range(30):
            k = self.rng.choice(kinds)
            if self.flavour == 'exp' and k == 'add_storage' and False:
                continue
            r = getattr(self, 'op_' + k)()
            if r is not None:
                if 'strand' in self.avoid and O.defect_classes(self.snap, [tag] + r):
                    continue
                return [tag] + r
        return [tag] + self.op_add_node()


def gen_history(rng, flavour, nops, vocab, invalid=0.2, avoid=(), stop_on_violation=True, known_ok=None, store=None):
    """returns (case, steps): the case and the observations (outcome, drawn ids, snapshot, views per call) of the
    generating run"""
    gen = Gen(rng, flavour, invalid, avoid)
    ops, steps = [], []
    with D.patched_uuid():
        topo = D.new_topology(flavour, store)
        for tag in range(1, nops + 1):
            op = gen.next_op(tag)
            st = D.step(topo, flavour, op, want_views=True)
            ops.append(op)
            steps.append(st)
            if op[1] in ('add_ns', 'node_add_ns') and st['out'] == 'ok':
                old = set(n[0] for n in gen.snap['nodes'] if n[1] == O.NS)
                gen.kept.update(n[0] for n in st['snap']['nodes'] if n[1] == O.NS and n[0] not in old)
            gen.snap = st['snap']
            gen.g = O.G(st['snap'])
            if stop_on_violation:
                v = O.rule_violations(st['snap'], vocab)
                if v:
                    break
    case = {'flavour': flavour, 'ops': ops}
    if store:
        case['store'] = store
    return case, steps

"""C09 - implementation driver: builds topologies with the REAL API (in-memory NetworkX backend), takes the
canonical snapshot of the graph, runs one call described by a JSON-able spec, records outcome + snapshot.

A *spec* is a dict {'op': ..., ...}; symbolic references (node names, interface references) are resolved at
the time the step runs, always through FRESH handles obtained from the topology views (so handle caches
never matter; they are C07/C08 material).  uuid.uuid4 is replaced by a counter ('u-<n>') so that the ids a
call draws are known in advance and can be handed to the Coq model.
"""
import json, uuid, logging

logging.disable(logging.CRITICAL)

_ctr = [0]


def _fake_uuid4():
    _ctr[0] += 1
    return 'u-%d' % _ctr[0]


_real_uuid4 = uuid.uuid4


class Impl:
    """one fresh store + one topology"""

    def __init__(self, flavour):
        import fim.user as f
        from fim.graph.networkx_property_graph import NetworkXGraphStorage
        self.f = f
        uuid.uuid4 = _fake_uuid4
        _ctr[0] = 0
        st = NetworkXGraphStorage()
        st.del_all_graphs()
        st.storage_instance.start_id = 1
        self.flavour = flavour
        self.topo = f.ExperimentTopology() if flavour == 'exp' else f.SubstrateTopology()
        self.saved = {}
        self._other = None

    def other(self):
        """a second live topology of the same flavour in the same store (made when first needed)"""
        if self._other is None:
            f = self.f
            self._other = f.ExperimentTopology() if self.flavour == 'exp' else f.SubstrateTopology()
        return self._other

    def on_other(self, fn):
        main = self.topo
        self.topo = self.other()
        try:
            return fn()
        finally:
            self.topo = main

    def snapshot_other(self):
        return self.on_other(self.snapshot) if self._other is not None else None

    # ---------------------------------------------------------------- snapshot
    def snapshot(self):
        g = self.topo.graph_model
        G = g.storage.get_graph(g.graph_id)
        idmap = {}
        nodes = []
        for n, d in G.nodes(data=True):
            if d.get('GraphID') != g.graph_id:
                continue
            idmap[n] = d['NodeID']
            rest = {k: v for k, v in d.items() if k not in ('NodeID', 'Class', 'Name', 'Type', 'GraphID')}
            nodes.append([d['NodeID'], d.get('Class'), d.get('Name'), d.get('Type'),
                          json.dumps(rest, sort_keys=True, default=str)])
        edges = []
        for a, b, d in G.edges(data=True):
            if a in idmap and b in idmap:
                x, y = sorted([idmap[a], idmap[b]])
                rest = {k: v for k, v in d.items() if k != 'Class'}
                edges.append([x, y, d.get('Class'), json.dumps(rest, sort_keys=True, default=str)])
        return {'nodes': sorted(nodes, key=lambda x: [str(y) for y in x]),
                'edges': sorted(edges, key=lambda x: [str(y) for y in x])}

    # ---------------------------------------------------------------- values
    def value(self, vs):
        """valuespec -> python object (fresh each time)"""
        f = self.f
        if vs is None:
            return None
        k = vs[0]
        if k == 'cap':
            return f.Capacities(**vs[1])
        if k == 'labels':
            return f.Labels(**vs[1])
        if k == 'raw':
            return vs[1]
        if k == 'long':
            return 'x' * vs[1]
        if k == 'tags':
            from fim.slivers.tags import Tags
            return Tags(*vs[1])
        raise ValueError(vs)

    def kwargs(self, kw):
        return {k: self.value(v) for k, v in (kw or [])}

    def enum(self, cls, name):
        return None if name is None else getattr(cls, name)

    # ---------------------------------------------------------------- handle resolution
    def node(self, name):
        if isinstance(name, list):
            return self.saved[name[1]]
        t = self.topo
        d = t.nodes
        if name in d:
            return d[name]
        return t.facilities[name]

    def all_ifaces(self):
        t = self.topo
        out = list(t.interface_list)
        facs = t.facilities
        if facs:
            for fn in facs.values():
                out.extend(fn.interface_list)
        for s in t.network_services.values():
            out.extend(s.interface_list)
        # sub-interfaces (children of dedicated ports) are connectable too
        for h in list(out):
            try:
                out.extend(h.interface_list)
            except Exception:
                pass
        return out

    def iface(self, ref):
        k = ref[0]
        if k == 'other_if':
            return self.on_other(lambda: self.all_ifaces()[ref[1]])
        if k == 'cp':
            for h in self.all_ifaces():
                if h.node_id == ref[1]:
                    return h
            raise KeyError(ref[1])
        if k == 'node_if':
            return self.node(ref[1]).interface_list[ref[2]]
        if k == 'svc_if':
            return self.topo.network_services[ref[1]].interface_list[ref[2]]
        if k == 'saved':
            return self.saved[ref[1]]
        raise ValueError(ref)

    def svc(self, ref):
        if ref[0] == 'saved':
            return self.saved[ref[1]]
        if ref[0] == 'other_svc':
            return self.on_other(lambda: self.topo.network_services[ref[1]])
        if ref[0] == 'top':
            return self.topo.network_services[ref[1]]
        return self.node(ref[1]).network_services[ref[2]]

    def element(self, ref):
        """fresh handle of an existing element: ['node', name] | ['comp', node, comp] | ['svc', svcref] |
        ['cp', id] | ['link', name]"""
        k = ref[0]
        if k == 'saved':
            return self.saved[ref[1]]
        if k == 'node':
            return self.node(ref[1])
        if k == 'comp':
            return self.node(ref[1]).components[ref[2]]
        if k == 'svc':
            return self.svc(ref[1])
        if k == 'cp':
            return self.iface(ref)
        if k == 'link':
            return self.topo.links[ref[1]]
        raise ValueError(ref)

    KIND = {'node': 1, 'comp': 2, 'svc': 3, 'cp': 4, 'link': 5}

    @staticmethod
    def kind_of(h):
        return {'Node': 'node', 'Component': 'comp', 'NetworkService': 'svc', 'PortMirrorService': 'svc',
                'Interface': 'cp', 'Link': 'link'}[type(h).__name__]

    def pure_element(self, kind, kw):
        from fim.slivers.network_node import NodeSliver
        from fim.slivers.attached_components import ComponentSliver
        from fim.slivers.network_service import NetworkServiceSliver
        from fim.slivers.interface_info import InterfaceSliver
        from fim.slivers.network_link import NetworkLinkSliver
        cls = {'node': NodeSliver, 'comp': ComponentSliver, 'svc': NetworkServiceSliver, 'cp': InterfaceSliver,
               'link': NetworkLinkSliver}[kind]

        def go():
            cls().set_properties(**self.kwargs(kw))
        return self._verdict(go)[0]

    # ---------------------------------------------------------------- pure verdicts (sliver construction only)
    @staticmethod
    def _verdict(fn):
        save = _ctr[0]
        try:
            r = fn()
            return None, r
        except Exception as e:      # noqa
            return type(e).__name__, None
        finally:
            _ctr[0] = save

    def pure_node(self, s):
        from fim.slivers.network_node import NodeSliver

        def go():
            sl = NodeSliver()
            sl.set_type(self.enum(self.f.NodeType, s.get('ntype')))
            sl.set_site(s.get('site'))
            sl.set_properties(**self.kwargs(s.get('kw')))
        return self._verdict(go)[0]

    def pure_service(self, s, kw=None):
        from fim.slivers.network_service import NetworkServiceSliver

        def go():
            sl = NetworkServiceSliver()
            nst = self.enum(self.f.ServiceType, s.get('nstype'))
            sl.set_type(nst)
            sl.set_layer(NetworkServiceSliver.ServiceConstraints[nst].layer)
            sl.set_technology(s.get('technology'))
            sl.set_properties(**(self.kwargs(s.get('kw')) if kw is None else kw()))
            sl.set_site(None)
        return self._verdict(go)[0]

    def pure_iface(self, s, kw=None):
        from fim.slivers.interface_info import InterfaceSliver

        def go():
            sl = InterfaceSliver()
            sl.set_type(self.enum(self.f.InterfaceType, s.get('itype')))
            sl.set_properties(**(self.kwargs(s.get('kw')) if kw is None else kw()))
        return self._verdict(go)[0]

    def pure_link(self, s):
        from fim.slivers.network_link import NetworkLinkSliver

        def go():
            sl = NetworkLinkSliver()
            lt = self.enum(self.f.LinkType, s.get('ltype'))
            sl.set_type(lt)
            sl.set_layer(NetworkLinkSliver.LinkConstraints[lt].layer)
            sl.set_technology(s.get('technology'))
            sl.set_properties(**self.kwargs(s.get('kw')))
        return self._verdict(go)[0]

    def pure_component(self, s, parent_name):
        """runs the catalogue alone: (exception class | None, child structure | None, kwargs verdict)"""
        from fim.slivers.component_catalog import ComponentCatalog
        f = self.f

        def go():
            cs = ComponentCatalog().generate_component(
                name=s['name'], model=s.get('model'), ctype=self.enum(f.ComponentType, s.get('ctype')),
                model_type=self.enum(f.ComponentModelType, s.get('model_type')),
                ns_node_id=s.get('ns_id'), interface_node_ids=s.get('if_ids'),
                interface_labels=[f.Labels(bdf='0000:41:00.%d' % i, mac='00:00:00:00:00:%02x' % i) for i in range(s['if_labels'])]
                if s.get('if_labels') is not None else None,
                parent_name=parent_name)
            return cs
        save = _ctr[0]
        exc, cs = self._verdict(go)
        if exc:
            return exc, None, None
        child = None
        nsi = cs.network_service_info
        if nsi is not None:
            ns = list(nsi.network_services.values())[0]
            ifs = []
            for i in ns.interface_info.interfaces.values():
                ifs.append({'name': i.get_name(), 'type': str(i.get_type()),
                            'id': i.node_id if s.get('if_ids') is not None else None})
            child = {'ns_name': ns.get_name(), 'ns_type': str(ns.get_type()),
                     'ns_id': s.get('ns_id'), 'ifs': ifs}

        def go2():
            cs.set_properties(**self.kwargs(s.get('kw')))
        exc2 = self._verdict(go2)[0]
        _ctr[0] = save
        return None, {'ctype': str(cs.get_type()), 'child': child}, exc2

    # ---------------------------------------------------------------- one call
    def prepare(self, s):
        """what the model needs besides the snapshot: resolved handles and pure verdicts; nothing here
        touches the graph."""
        op = s['op']
        info = {}
        if op == 'add_node':
            info['pure'] = self.pure_node(s)
        elif op == 'add_component':
            n = self.node(s['node'])
            info['parent'] = n.node_id
            # the constructor takes the parent's name from the GRAPH (get_node_properties), not from the handle:
            # they differ when the node was renamed after the handle was made
            try:
                pname = n.topo.graph_model.get_node_properties(node_id=n.node_id)[1].get('Name', None)
            except Exception:
                pname = n.name          # a stale handle: the call fails before the catalogue is consulted
            info['cat_exc'], info['cat'], info['pure'] = self.pure_component(s, pname)
        elif op in ('add_service', 'add_link'):
            hs = [self.iface(r) for r in s['ifs']] if s.get('ifs') is not None else None
            info['ifs'] = [[h.node_id, h.name] for h in hs] if hs is not None else None
            info['pure'] = self.pure_service(s) if op == 'add_service' else self.pure_link(s)
        elif op == 'add_node_service':
            info['parent'] = self.node(s['node']).node_id
            info['pure'] = self.pure_service(s)
        elif op == 'add_interface':
            h = self.svc(s['svc'])
            info['svc'] = h.node_id
            info['cached'] = [i.name for i in h.interface_list]
            info['pure'] = self.pure_iface(s)
        elif op == 'add_facility':
            info['pure_ns'] = self.pure_service({'nstype': s.get('nstype', 'VLAN')},
                                                kw=lambda: {'labels': self.value(s.get('nslabels'))})
            if not s.get('interfaces'):
                info['pure_ifs'] = [self.pure_iface({'itype': 'FacilityPort', 'kw': s.get('kw')})]
            else:
                info['pure_ifs'] = [self.pure_iface({'itype': 'FacilityPort'},
                                                    kw=lambda t=t: {'labels': self.value(t[1]),
                                                                    'capacities': self.value(t[2])})
                                    for t in s['interfaces']]
        elif op in ('rename', 'set_props'):
            h = self.element(s['el'])
            info['id'] = h.node_id
            kind = self.kind_of(h)
            info['kind'] = self.KIND[kind]
            if op == 'set_props':
                info['pure'] = self.pure_element(kind, s.get('kw'))
        elif op == 'remove_link':
            pass
        elif op == 'unpeer':
            info['a'] = self.svc(s['a']).node_id
            info['b'] = self.svc(s['b']).node_id
        elif op == 'port_mirror':
            h = self.iface(s['to']) if s.get('to') is not None else None
            info['to'] = [h.node_id, h.name] if h is not None else None
            frm = s.get('from')
            info['pure'] = self.pure_service(
                {'nstype': 'PortMirror'},
                kw=lambda: dict(mirror_port=frm, mirror_vlan=s.get('vlan'),
                                mirror_direction=__import__("fim.slivers.network_service", fromlist=["MirrorDirection"]).MirrorDirection.Both, **self.kwargs(s.get('kw'))))
        elif op == 'connect':
            info['svc'] = self.svc(s['svc']).node_id
            h = self.iface(s['if'])
            info['if'] = [h.node_id, h.name]
        elif op == 'add_child':
            h = self.iface(s['if'])
            info['id'] = h.node_id
            # the label checks of add_child_interface, evaluated on what the API shows before the call
            lv = None
            vlan = s.get('vlan')
            try:
                if not vlan:
                    lv = 'TopologyException'
                else:
                    used = [c.labels.vlan for c in h.interface_list if c.labels and c.labels.vlan]
                    if vlan in used:
                        lv = 'TopologyException'
                    elif not h.labels:
                        lv = 'TopologyException'
            except Exception:   # a stale handle: the call itself fails before it gets to the label checks
                lv = None
            info['label_verdict'] = lv
            info['pure'] = self.pure_iface(
                {'itype': 'SubInterface'},
                kw=lambda: dict(({'labels': self.f.Labels(vlan=vlan)} if vlan else {}), **self.kwargs(s.get('kw'))))
        elif op == 'peer':
            a, b = self.svc(s['a']), self.svc(s['b'])
            info['a'], info['an'], info['ca'] = a.node_id, a.name, [i.name for i in a.interface_list]
            info['b'], info['bn'], info['cb'] = b.node_id, b.name, [i.name for i in b.interface_list]
            info['pure'] = self.pure_iface({'itype': 'ServicePort', 'kw': s.get('kw')})
        elif op == 'add_switch':
            info['pure_ns'] = self.pure_service({'nstype': s.get('nstype', 'P4')},
                                                kw=lambda: {'labels': self.value(s.get('nslabels'))})
            info['pure_port'] = self.pure_iface(
                {'itype': 'DedicatedPort'},
                kw=lambda: {'labels': self.value(s.get('portlabels')) or self.f.Labels(local_name='p1'),
                            'capacities': self.value(s.get('portcapacities')) or self.f.Capacities(bw=100)})
        return info

    def run(self, s):
        f, t = self.f, self.topo
        op = s['op']
        kw = self.kwargs(s.get('kw'))
        if op == 'add_node':
            args = dict(name=s['name'], node_id=s.get('node_id'), site=s.get('site'), **kw)
            if 'ntype' in s:
                args['ntype'] = self.enum(f.NodeType, s['ntype'])
            t.add_node(**args)
        elif op == 'add_component':
            n = self.node(s['node'])
            n.add_component(name=s['name'], node_id=s.get('node_id'),
                            ctype=self.enum(f.ComponentType, s.get('ctype')), model=s.get('model'),
                            model_type=self.enum(f.ComponentModelType, s.get('model_type')),
                            network_service_node_id=s.get('ns_id'), interface_node_ids=s.get('if_ids'),
                            interface_labels=[f.Labels(bdf='0000:41:00.%d' % i, mac='00:00:00:00:00:%02x' % i)
                                              for i in range(s['if_labels'])] if s.get('if_labels') is not None else None,
                            **kw)
        elif op == 'add_service':
            ifs = [self.iface(r) for r in s['ifs']] if s.get('ifs') is not None else None
            t.add_network_service(name=s['name'], node_id=s.get('node_id'),
                                  nstype=self.enum(f.ServiceType, s.get('nstype')), interfaces=ifs,
                                  technology=s.get('technology'), **kw)
        elif op == 'add_node_service':
            self.node(s['node']).add_network_service(name=s['name'], node_id=s.get('node_id'),
                                                     nstype=self.enum(f.ServiceType, s.get('nstype')), **kw)
        elif op == 'add_interface':
            args = dict(name=s['name'], node_id=s.get('node_id'), **kw)
            if 'itype' in s:
                args['itype'] = self.enum(f.InterfaceType, s['itype'])
            self.svc(s['svc']).add_interface(**args)
        elif op == 'add_link':
            ifs = [self.iface(r) for r in s['ifs']] if s.get('ifs') is not None else None
            t.add_link(name=s['name'], node_id=s.get('node_id'), ltype=self.enum(f.LinkType, s.get('ltype')),
                       interfaces=ifs, technology=s.get('technology'), **kw)
        elif op == 'add_facility':
            args = dict(name=s['name'], node_id=s.get('node_id'), site=s.get('site'),
                        nslabels=self.value(s.get('nslabels')), **kw)
            if 'nstype' in s:
                args['nstype'] = self.enum(f.ServiceType, s['nstype'])
            if s.get('interfaces') is not None:
                args['interfaces'] = [(x[0], self.value(x[1]), self.value(x[2])) for x in s['interfaces']]
            t.add_facility(**args)
        elif op == 'add_switch':
            args = dict(name=s['name'], node_id=s.get('node_id'), site=s.get('site'), nports=s.get('nports', 2),
                        nslabels=self.value(s.get('nslabels')), portlabels=self.value(s.get('portlabels')),
                        portcapacities=self.value(s.get('portcapacities')))
            if 'nstype' in s:
                args['nstype'] = self.enum(f.ServiceType, s['nstype'])
            t.add_switch(**args)
        elif op == 'peer':
            a, b = self.svc(s['a']), self.svc(s['b'])
            a.peer(b, **kw)
        elif op == 'remove_node':
            t.remove_node(s['name'])
        elif op == 'remove_facility':
            t.remove_facility(name=s['name'])
        elif op == 'remove_service':
            t.remove_network_service(s['name'])
        elif op == 'remove_link':
            t.remove_link(s['name'])
        elif op == 'save_if':
            self.saved[s['as']] = self.iface(s['ref'])
        elif op == 'save':
            self.saved[s['as']] = self.element(s['ref'])
        elif op == 'set_props':
            self.element(s['el']).set_properties(**kw)
        elif op == 'rename':
            self.element(s['el']).rename(s['new'])
        elif op == 'unpeer':
            a, b = self.svc(s['a']), self.svc(s['b'])
            a.unpeer(b)
        elif op == 'port_mirror':
            t.add_port_mirror_service(name=s['name'], node_id=s.get('node_id'), from_interface_name=s.get('from'),
                                      from_interface_vlan=s.get('vlan'),
                                      to_interface=self.iface(s['to']) if s.get('to') is not None else None, **kw)
        elif op == 'connect':
            self.svc(s['svc']).connect_interface(self.iface(s['if']))
        elif op == 'add_child':
            h = self.iface(s['if'])
            args = dict(name=s['name'], node_id=s.get('node_id'), **kw)
            if s.get('vlan'):
                args['labels'] = f.Labels(vlan=s['vlan'])
            h.add_child_interface(**args)
        else:
            raise ValueError(op)

    def step(self, s):
        """run a step, swallowing (and reporting) the exception"""
        try:
            if s.get('on') == 'other':
                self.on_other(lambda: self.run(s))
            else:
                self.run(s)
            return None
        except Exception as e:  # noqa
            return type(e).__name__

    def close(self):
        uuid.uuid4 = _real_uuid4


def counter():
    return _ctr[0]


def observe_step(im, call, n_fresh=12):
    """prepare + snapshot + run + snapshot of one call on a live Impl"""
    try:
        info = im.prepare(call)
        prep_err = None
    except Exception as e:  # the call cannot even be set up (reference to a thing that is not there)
        info, prep_err = None, type(e).__name__ + ': ' + str(e)[:80]
    pre = im.snapshot()
    pre_other = im.snapshot_other()
    c0 = counter()
    fresh = ['u-%d' % (c0 + 1 + i) for i in range(n_fresh)]
    exc = im.step(call) if prep_err is None else None
    post = im.snapshot()
    return {'info': info, 'prep_err': prep_err, 'pre': pre, 'post': post,
            'pre_other': pre_other, 'post_other': im.snapshot_other(),
            'exc': exc, 'fresh': fresh, 'drawn': counter() - c0}


def observe_case(case):
    """case = {'flavour', 'build': [spec...], 'call': spec}: fresh store, replay the history, observe the call"""
    im = Impl(case['flavour'])
    try:
        for s in case['build']:
            im.step(s)
        return observe_step(im, case['call'])
    finally:
        im.close()

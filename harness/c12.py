"""C12 - delegations and pools survive encoding and regrouping unchanged.

Streams (each runs the real classes of fim/slivers/delegations.py and lets Coq evaluate Model/Deleg12.v /
Model/Pools12.v on the same inputs):
  ops       build a Delegations object through the API (Delegation(), Capacities()/Labels(), set_details,
            add_delegations), to_json, from_json
  json      decode a hand-made JSON document (well-formed and ill-formed shapes), re-encode
  pools     build a pool family (constructor + setters), build_index_by_delegation_id,
            generate_delegations_by_node_id, incorporate_delegation of everything generated (two node orders)
  inc       decode per-node documents and incorporate them in a given order (consistent and inconsistent)
  dhist     ONE Delegations container: multi-step histories (add, remove_by_id, set_details on shared objects, queries,
            to_json at any point and repeatedly, from_json of earlier texts)
  hist      ONE Pools object: multi-step histories (index, edit / re-delegate / replace, re-index, generate, regroup)
  annotate  pools + single delegations -> annotate_delegations_and_pools on a real NetworkX ARM graph (or
            Topology.single_delegation) -> node properties -> get_delegations -> incorporate
Each stream has an oracle that restates the property over implementation observables only."""
import sys, json, copy
from . import common
from .common import *

CAP, LAB = 'cap', 'lab'
FMT_CODE = {'def': 1, 'ref': 2, 'single': 3}
TY_CODE = {CAP: 1, LAB: 2}
# the documented wire names (docstring of Delegations.to_json); deliberately NOT read from the implementation
W_POOL_ID, W_POOL, W_CAPS, W_LABS = 'pool_id', 'pool', 'capacities', 'labels'
NODES = ['node-%d' % i for i in range(6)]


def lib():
    import fim.slivers.delegations as D
    import fim.slivers.capacities_labels as CL
    return D, CL


def T(ty):
    D, _ = lib()
    return D.DelegationType.CAPACITY if ty == CAP else D.DelegationType.LABEL


def F(fmt):
    D, _ = lib()
    return {'def': D.DelegationFormat.PoolDefinition, 'ref': D.DelegationFormat.PoolReference,
            'single': D.DelegationFormat.SinglePool}[fmt]


def err(e):
    return {'err': type(e).__name__}


def is_err(o):
    return isinstance(o, dict) and 'err' in o


# ------------------------------------------------------------------------------------------------
# implementation objects -> canonical JSON-able observations (same shape as the model's v_* encoders)
# ------------------------------------------------------------------------------------------------

def obs_det(x):
    if x is None:
        return None
    _, CL = lib()
    kind = 1 if isinstance(x, CL.Capacities) else 2
    return [kind, [x.__dict__[f] for f in x.__dict__.keys()]]


def tcode(t):
    return t.value if t is not None else None


def obs_deleg(d):
    return [tcode(d.type), d.delegation_id, d.format.value, d.pool_id, obs_det(d.delegation_details)]


def obs_delegations(ds):
    return [tcode(ds.type), [obs_deleg(v) for v in ds.delegations.values()]]


def obs_ddict(d):
    return None if d is None else [[k, v] for k, v in d.items()]


def obs_jdoc(text):
    doc = json.loads(text)
    return [[k, [v.get(W_POOL_ID), v.get(W_POOL), obs_ddict(v.get(W_CAPS)), obs_ddict(v.get(W_LABS))]]
            for k, v in doc.items()]


def extra_keys(text):
    doc = json.loads(text)
    return sorted({kk for v in doc.values() for kk in v.keys()} - {W_POOL_ID, W_POOL, W_CAPS, W_LABS})


def obs_pool(p):
    return [tcode(p.type), p.pool_id, p.delegation_id, p.on_, sorted(p.for_), obs_det(p.pool_details)]


def obs_pools(ps):
    return [obs_pool(p) for _, p in sorted(ps.pool_by_id.items())]


def obs_gmap(g):
    return [[n, obs_delegations(ds)] for n, ds in sorted(g.items())]


# ------------------------------------------------------------------------------------------------
# Coq printers
# ------------------------------------------------------------------------------------------------

_real_cstr = cstr


def cstr(s):   # noqa: F811  (compact form of common.cstr: S"..." for plain ASCII, code points otherwise)
    """python str -> Coq term of type str (list N).  Plain printable ASCII without a double quote is written with the
    S"..." notation of Base/Str.v (of_string), which Coq parses and elaborates several times faster than a list of
    numerals; anything else as the list of code points."""
    if s and all(32 <= ord(c) < 127 and c != '"' for c in s):
        return '(S"%s")' % s
    return '(' + _real_cstr(s) + ')'


def py_val(o):
    if isinstance(o, bool):
        return 'VB ' + cbool(o)
    if isinstance(o, int):
        return 'VZ ' + cZ(o)
    if isinstance(o, str):
        return 'VS ' + cstr(o)
    if o is None:
        return 'VNone'
    if isinstance(o, dict) and 'err' in o:
        return 'VErr ' + cstr(o['err'])
    if isinstance(o, (list, tuple)):
        return 'VL ' + clist(['(' + py_val(x) + ')' for x in o])
    raise TypeError(o)


def c_ty(t):
    return 'TCap' if t == CAP else 'TLab'


def c_fmt(f):
    return {'def': 'FDef', 'ref': 'FRef', 'single': 'FSingle'}[f]


def c_dval(v):
    if isinstance(v, bool):
        raise TypeError(v)
    if isinstance(v, int):
        return '(DInt %s)' % cZ(v)
    if isinstance(v, str):
        return '(DStr %s)' % cstr(v)
    if isinstance(v, list):
        return '(DList %s)' % clist([cstr(x) for x in v])
    raise TypeError(v)


def c_ddict(d):
    return clist(['(%s, %s)' % (cstr(k), c_dval(v)) for k, v in d])


def c_optstr(s):
    return copt(s, cstr)


def c_det_obs(o):
    """[kind, [vals]] (an observation of a real object) -> det term"""
    kind, vals = o
    return '(mkDet %s %s)' % ('TCap' if kind == 1 else 'TLab',
                              clist(['None' if v is None else '(Some %s)' % c_dval(v) for v in vals]))


def c_spec(s):
    det = 'None' if s['details'] is None else '(Some (%s, %s))' % (c_ty(s['details'][0]), c_ddict(s['details'][1]))
    return '(mkSpec %s %s %s %s %s)' % (c_ty(s['type']), cstr(s['id']), c_fmt(s['fmt']), c_optstr(s['pool']), det)


def c_jentry(inner):
    d = dict(inner)
    return '(mkJ %s %s %s %s)' % (c_optstr(d.get(W_POOL_ID)), c_optstr(d.get(W_POOL)),
                                  copt(d.get(W_CAPS), c_ddict), copt(d.get(W_LABS), c_ddict))


def c_jdoc(doc):
    return clist(['(%s, %s)' % (cstr(k), c_jentry(inner)) for k, inner in doc])


def c_verdicts(t):
    return clist(['(%s, %s, %s)' % (cstr(f), c_dval(v), cstr(c)) for f, v, c in t])


def doc_text(doc):
    """case document ([id, [[key, value]...]]) -> JSON text; details dicts are lists of pairs in the case"""
    out = {}
    for k, inner in doc:
        out[k] = {kk: (dict(vv) if kk in (W_CAPS, W_LABS) and vv is not None else vv) for kk, vv in inner}
    return json.dumps(out)


# ------------------------------------------------------------------------------------------------
# validator verdicts (the model is parametric in the Labels validators; see Model/Deleg12.v)
# ------------------------------------------------------------------------------------------------

def lab_fields():
    _, CL = lib()
    return list(CL.Labels().__dict__.keys())


def cap_fields():
    _, CL = lib()
    return list(CL.Capacities().__dict__.keys())


def verdicts_for(ddicts):
    """(field, value, class) for every label pair of the case that the Labels constructor refuses"""
    _, CL = lib()
    lf = set(lab_fields())
    out, seen = [], set()
    for d in ddicts:
        for k, v in d:
            if k in lf and not isinstance(v, int):
                key = json.dumps([k, v])
                if key in seen:
                    continue
                seen.add(key)
                try:
                    CL.Labels(**{k: copy.deepcopy(v)})
                except Exception as e:
                    out.append([k, v, type(e).__name__])
    return out


def mk_obj(kind, dd):
    _, CL = lib()
    return (CL.Capacities if kind == CAP else CL.Labels)(**{k: copy.deepcopy(v) for k, v in dd})


def ddict_valid(kind, d, verdicts):
    """would the constructor of `kind` accept this dictionary? (verdicts = refusals recorded for label pairs)"""
    fields = set(cap_fields() if kind == CAP else lab_fields())
    bad = {(f, json.dumps(v)) for f, v, _ in verdicts}
    for k, v in d:
        if k not in fields:
            return False
        if kind == CAP and not (isinstance(v, int) and v >= 0):
            return False
        if kind == LAB and (isinstance(v, int) or (k, json.dumps(v)) in bad):
            return False
    return True


def nonempty_det(o):
    """observation [kind, vals]: does to_dict keep anything?"""
    return o is not None and any(v is not None and v != 0 for v in o[1])


# ------------------------------------------------------------------------------------------------
# generators of ids and details
# ------------------------------------------------------------------------------------------------
IDS = ['d1', 'd2', 'd3', 'primary', 'del-ä', 'x' * 40, '_', '']
PNAMES = ['p1', 'p2', 'pool3', 'shared_pool', 'p é"q', '_', '']
GOOD_LAB = {
    'bdf': ['0000:41:00.0', ['0000:41:00.0', '0000:41:00.1']], 'mac': ['00:11:22:33:44:55', ['0C:42:A1:BE:8F:D5']],
    'ipv4': ['192.168.1.1', ['10.0.0.1', '10.0.0.2']], 'ipv4_range': ['192.168.1.1-192.168.1.10'],
    'ipv4_subnet': ['192.168.1.0/24'], 'ipv6': ['2001:0db8:85a3:0000:0000:8a2e:0370:7334'],
    'ipv6_subnet': ['2001:0db8:85a3:0000:0000/48'], 'asn': ['12345', ['1', '65000']], 'vlan': ['100', ['100', '101', '102'], []],
    'vlan_range': ['1-100', '101-200', ['1-2', '3-4']], 'inner_vlan': ['7'], 'instance': ['instance-001', ''],
    'instance_parent': ['worker1'], 'local_name': ['eth0', ['p1', 'p2'], 'naïve "x"\\'],
    'local_type': ['ethernet'], 'device_name': ['dev0', 'nøde'], 'bgp_key': ['secret-key'],
    'account_id': ['123456789012'], 'region': ['us-east-1'], 'usb_id': ['1234:abcd'], 'numa': ['1', '-1', ['0', '7']],
}
BAD_LAB = [('vlan', '5000'), ('vlan', 'abc'), ('vlan', ''), ('numa', 'x'), ('numa', '9'), ('mac', '00:11'),
           ('nosuchfield', 'v'), ('vlan', 7), ('vlan_range', '5-1'), ('ipv4', ['1.2.3.4', '999.1.1.1']),
           ('asn', '0'), ('usb_id', 'ABCD:1234')]
BAD_CAP = [('cpu', -1), ('ram', 'lots'), ('disk', ['1']), ('nosuchfield', 3), ('core', -5)]
CAP_VALUES = [0, 0, 1, 2, 5, 64, 1000, 10 ** 12, 2 ** 70]


def gen_caps(rng, allow_empty=False):
    fs = cap_fields()
    k = rng.choice([1, 1, 2, 3, len(fs)])
    d = [[f, rng.choice(CAP_VALUES)] for f in rng.sample(fs, min(k, len(fs)))]
    if not allow_empty and all(v == 0 for _, v in d):
        d[0][1] = rng.choice([1, 4, 96])
    return d


def gen_labs(rng, allow_empty=False):
    fs = [f for f in lab_fields() if f in GOOD_LAB]
    k = rng.choice([1, 1, 2, 3, 5])
    d = [[f, copy.deepcopy(rng.choice(GOOD_LAB[f]))] for f in rng.sample(fs, min(k, len(fs)))]
    if allow_empty and rng.random() < 0.5:
        return []
    return d


def gen_details(rng, kind, bad=0.0, empty=0.0):
    """ddict (list of [field, value]) for the class `kind`"""
    if rng.random() < empty:
        return [] if kind == LAB else [[rng.choice(cap_fields()), 0]] * rng.choice([0, 1])
    d = gen_caps(rng) if kind == CAP else gen_labs(rng)
    if rng.random() < bad:
        k, v = rng.choice(BAD_CAP if kind == CAP else BAD_LAB)
        d = [x for x in d if x[0] != k]
        d.insert(rng.randrange(len(d) + 1), [k, copy.deepcopy(v)])
    return d


def drop_one(lst):
    """candidates for shrinking: the list with one element removed"""
    for i in range(len(lst)):
        yield lst[:i] + lst[i + 1:]


def shrink_lists(case, paths, failing):
    """greedy removal of elements of the lists at the given key paths while the case keeps failing"""
    case = copy.deepcopy(case)
    changed = True
    rounds = 0
    while changed and rounds < 30:
        changed = False
        rounds += 1
        for path in paths:
            cur = case
            for k in path[:-1]:
                cur = cur[k]
            lst = cur[path[-1]]
            for cand in drop_one(lst):
                cur[path[-1]] = cand
                try:
                    bad = failing(case)
                except Exception:
                    bad = False
                if bad:
                    changed = True
                    break
                cur[path[-1]] = lst
            if changed:
                break
    return case


# ------------------------------------------------------------------------------------------------
# stream ops
# ------------------------------------------------------------------------------------------------
HEADER = ('From Coq Require Import List ZArith NArith String.\nImport ListNotations.\n'
          'From FIM Require Import Base.Str Model.Deleg12 Model.Pools12.\n')


class Ops(Stream):
    name = 'ops'
    header = HEADER
    case_type = '(verdicts * dtype * list (list spec)) * val'
    check_fn = 'check_ops'
    rule = ('a Delegations object built through the API from 0..7 delegation specs (type, id, format, pool name, '
            'optional details dictionary incl. ill-typed / invalid ones) handed to add_delegations in calls of 1..4 '
            'arguments (incl. the same id twice in one call), then to_json and from_json; non-trivial = at '
            'least two delegations were added and the encoding succeeded; distinct by case value')

    def gen(self, rng, tier):
        self.shard = 130 if tier == 'quick' else 400   # small shards: the quick tier then uses all jobs
        n = 300 if tier == 'quick' else 8000
        out = []
        for _ in range(n):
            ty = rng.choice([CAP, LAB])
            mode = rng.randrange(10)          # 0-5 well-formed, 6-9 with ill-typed / conflicting shapes
            specs = []
            ids = rng.sample(IDS[:6], rng.randrange(1, 6)) if mode < 8 else [rng.choice(IDS) for _ in range(rng.randrange(1, 6))]
            for i in ids:
                fmt = rng.choice(['single', 'def', 'ref'])
                sty = ty if (mode < 6 or rng.random() < 0.8) else (LAB if ty == CAP else CAP)
                pool = None
                if fmt != 'single':
                    pool = rng.choice(PNAMES[:5]) if mode < 6 else rng.choice(PNAMES + [None])
                elif mode >= 6 and rng.random() < 0.15:
                    pool = rng.choice(PNAMES)
                details = None
                if fmt != 'ref' or (mode >= 6 and rng.random() < 0.5):
                    kind = sty if (mode < 6 or rng.random() < 0.7) else (LAB if sty == CAP else CAP)
                    details = [kind, gen_details(rng, kind, bad=0.0 if mode < 6 else 0.25, empty=0.0 if mode < 6 else 0.15)]
                    if mode >= 6 and rng.random() < 0.1:
                        details = None
                specs.append({'type': sty, 'id': i, 'fmt': fmt, 'pool': pool, 'details': details})
            if mode >= 8 and specs and rng.random() < 0.6:      # the same id twice, next to each other
                k = rng.randrange(len(specs))
                specs.insert(k + 1, dict(copy.deepcopy(specs[k]), fmt=rng.choice(['single', 'def', 'ref'])))
                if specs[k + 1]['fmt'] != 'single' and specs[k + 1]['pool'] is None:
                    specs[k + 1]['pool'] = 'p1'
            batches = []
            while specs:                                        # add_delegations calls of 1..4 arguments
                k = rng.choice([1, 1, 2, 3, 4])
                batches.append(specs[:k])
                specs = specs[k:]
            out.append({'ty': ty, 'batches': batches})
        return out

    def corpus(self):
        lv = [LAB, [['vlan_range', '1-100']]]
        return [
            {'ty': LAB, 'specs': [{'type': LAB, 'id': 'del1', 'fmt': 'single', 'pool': None, 'details': lv},
                                  {'type': LAB, 'id': 'del2', 'fmt': 'def', 'pool': 'pool1', 'details': [LAB, [['vlan_range', '101-200']]]},
                                  {'type': LAB, 'id': 'del3', 'fmt': 'ref', 'pool': 'pool1', 'details': None}]},
            {'ty': CAP, 'specs': [{'type': CAP, 'id': 'd', 'fmt': 'def', 'pool': 'p', 'details': [LAB, [['vlan', '3']]]},
                                  {'type': CAP, 'id': 'd', 'fmt': 'ref', 'pool': 'p', 'details': [CAP, [['cpu', 1]]]},
                                  {'type': CAP, 'id': 'd', 'fmt': 'single', 'pool': None, 'details': [CAP, [['cpu', 1], ['ram', 0]]]},
                                  {'type': CAP, 'id': 'd', 'fmt': 'single', 'pool': None, 'details': [CAP, [['core', 2]]]}]},
            {'ty': CAP, 'specs': []},
        ] + [c for c in load_corpus('ops')]

    def observe(self, case):
        D, CL = lib()
        ty = case['ty']
        ds = D.Delegations(atype=T(ty))
        outs = []
        for batch in batches_of(case):
            built, steps_all = [], []
            for s in batch:
                try:
                    d = D.Delegation(atype=T(s['type']), delegation_id=s['id'], aformat=F(s['fmt']), pool_id=s['pool'])
                except Exception as e:
                    steps_all.append([err(e)])
                    continue
                steps = [True]
                if s['details'] is not None:
                    kind, dd = s['details']
                    try:
                        obj = mk_obj(kind, dd)
                    except Exception as e:
                        steps.append(err(e))
                    else:
                        steps.append(True)
                        try:
                            d.set_details(obj)
                            steps.append(True)
                        except Exception as e:
                            steps.append(err(e))
                built.append(d)
                steps_all.append(steps)
            try:
                ds.add_delegations(*built)          # ONE call for the whole batch
                r = True
            except Exception as e:
                r = err(e)
            outs.append([steps_all, r, [v.delegation_id for v in ds.delegations.values()]])
        struct = obs_delegations(ds)
        keys_ok = [k for k in ds.delegations.keys()] == [v.delegation_id for v in ds.delegations.values()]
        text, dec, extra = None, None, []
        try:
            text = ds.to_json()
            enc = [obs_jdoc(text)]
            extra = extra_keys(text)
        except Exception as e:
            enc = err(e)
        if text is not None:
            try:
                ds2 = D.Delegations.from_json(json_str=text, atype=T(ty))
                dec = [obs_delegations(ds2)]
            except Exception as e:
                dec = err(e)
        return {'outs': outs, 'ds': struct, 'enc': enc, 'dec': dec, 'keys_ok': keys_ok, 'extra': extra,
                'verdicts': verdicts_for([s['details'][1] for b in batches_of(case) for s in b
                                          if s['details'] and s['details'][0] == LAB])}

    def to_coq(self, case, o):
        return '((%s, %s, %s), %s)' % (c_verdicts(o['verdicts']), c_ty(case['ty']),
                                       clist([clist([c_spec(s) for s in b]) for b in batches_of(case)]),
                                       py_val([o['outs'], o['ds'], o['enc'], o['dec']]))

    def oracle(self, case, o):
        ty = case['ty']
        held = []                       # ids in the container, as the property prescribes
        accepted = {}                   # id -> spec (+ has_details) of what must be in the container
        for batch, (steps_all, r, ids_after) in zip(batches_of(case), o['outs']):
            args = []
            for s, steps in zip(batch, steps_all):
                reserved = s['fmt'] == 'def' and s['pool'] == '_'
                if is_err(steps[0]):
                    if reserved:
                        if steps[0]['err'] != 'DelegationException':
                            return 'a pool definition named "_" was refused with ' + steps[0]['err']
                    elif s['fmt'] == 'single' or s['pool'] is not None:
                        return 'constructor refused a well-formed delegation %r' % s['id']
                    continue
                if reserved:
                    return 'a pool definition with the reserved pool name "_" was accepted (it encodes as a single-pool delegation)'
                has_details = False
                if s['details'] is not None and not is_err(steps[1]):
                    kind = s['details'][0]
                    rs = steps[2]
                    if s['fmt'] == 'ref':
                        if not (is_err(rs) and rs['err'] == 'DelegationException'):
                            return 'details on a pool reference were not rejected (delegation %r)' % s['id']
                    elif kind != s['type']:
                        if not (is_err(rs) and rs['err'] == 'DelegationException'):
                            return 'mixing: %s details on a %s delegation were not rejected (delegation %r)' % (kind, s['type'], s['id'])
                    elif is_err(rs):
                        return 'well-typed details refused: ' + rs['err']
                    else:
                        has_details = True
                args.append(dict(s, has_details=has_details))
            # the one add_delegations call of this batch
            seen = list(held)
            offender = None
            for k, a in enumerate(args):
                if a['type'] != ty:
                    offender = (k, 'foreign')
                    break
                if a['id'] in seen:
                    offender = (k, 'duplicate')
                    break
                seen.append(a['id'])
            if offender is None:
                if is_err(r):
                    return 'add_delegations refused new ids %r: %s' % ([a['id'] for a in args], r['err'])
                held = seen
                for a in args:
                    accepted[a['id']] = a
            else:
                k, what = offender
                if what == 'duplicate' and not (is_err(r) and r['err'] == 'DelegationException'):
                    return 'duplicate delegation id %r in %r (container held %r) was not rejected' % (
                        args[k]['id'], [a['id'] for a in args], held)
                if what == 'foreign' and not is_err(r):
                    return 'a %s delegation was added to a %s container' % (args[k]['type'], ty)
                # a refused call may leave the arguments before the offender in the container, or none of them
                if ids_after == held + [a['id'] for a in args[:k]]:
                    for a in args[:k]:
                        accepted[a['id']] = a
                    held = ids_after
                elif ids_after != held:
                    return 'a refused add_delegations call left %r in the container (held %r before)' % (ids_after, held)
            if ids_after != held:
                return 'after add_delegations the container holds %r, expected %r' % (ids_after, held)
        if not o['keys_ok'] or [d[1] for d in o['ds'][1]] != held:
            return 'the container does not hold exactly the accepted delegations, keyed by their ids'
        for d in o['ds'][1]:
            a = accepted[d[1]]
            want_pool = None if a['fmt'] == 'single' else a['pool']       # a single-pool delegation keeps no pool name
            if [d[0], d[2], d[3]] != [TY_CODE[a['type']], FMT_CODE[a['fmt']], want_pool] or (d[4] is not None) != a['has_details']:
                return 'the container holds %r for the accepted delegation %r' % (d, a)
        if o['extra']:
            return 'unexpected keys in the encoding: %r' % o['extra']
        encodable = all(d[2] == 2 or nonempty_det(d[4]) for d in o['ds'][1])
        if is_err(o['enc']):
            if encodable:
                return 'to_json raised %s on delegations that all carry details' % o['enc']['err']
            return None
        if not encodable:
            return 'to_json encoded a delegation without details'
        if is_err(o['dec']):
            return 'roundtrip: the encoded text is not decodable: ' + o['dec']['err']
        if o['dec'][0] != o['ds']:
            for a, b in zip(o['ds'][1], o['dec'][0][1]):
                if a != b:
                    return 'roundtrip differs: %r -> %r' % (a, b)
            return 'roundtrip differs'
        return None

    def key(self, case, o):
        if len(o['ds'][1]) >= 2 and not is_err(o['enc']):
            return stable_hash(case)
        return None

    def histogram(self, cases, obs):
        h = {'encoded': 0, 'encode_refused': 0, 'set_details_rejected': 0, 'add_calls': 0, 'add_calls_rejected': 0,
             'multi_argument_calls': 0, 'object_refused': 0, 'n_added': {}, 'formats': {'def': 0, 'ref': 0, 'single': 0}}
        for c, o in zip(cases, obs):
            h['encoded'] += not is_err(o['enc'])
            h['encode_refused'] += is_err(o['enc'])
            k = str(len(o['ds'][1]))
            h['n_added'][k] = h['n_added'].get(k, 0) + 1
            for batch, (steps_all, r, _) in zip(batches_of(c), o['outs']):
                h['add_calls'] += 1
                h['add_calls_rejected'] += is_err(r)
                h['multi_argument_calls'] += len(batch) > 1
                for s, st in zip(batch, steps_all):
                    h['formats'][s['fmt']] += 1
                    if len(st) >= 2 and s['details'] is not None:
                        h['object_refused'] += is_err(st[1])
                        h['set_details_rejected'] += len(st) >= 3 and is_err(st[2])
        return h

    def describe(self, case, o):
        return {'case': case, 'impl': {k: o[k] for k in ('outs', 'enc', 'dec')}}

    def shrink(self, case, failing):
        c = {'ty': case['ty'], 'batches': copy.deepcopy(batches_of(case))}
        c = shrink_lists(c, [['batches']], failing)
        return shrink_lists(c, [['batches', i] for i in range(len(c['batches']))], failing)


def batches_of(case):
    """ops cases: 'batches' = list of add_delegations calls (each a list of specs); older corpus cases carry a flat
    'specs' list = one call per delegation"""
    if 'batches' in case:
        return case['batches']
    return [[s] for s in case['specs']]


# ------------------------------------------------------------------------------------------------
# stream json
# ------------------------------------------------------------------------------------------------

def gen_inner(rng, ty, mode):
    """inner dictionary as a list of [key, value]; mode 0 = the shapes to_json produces, 1 = ill-formed"""
    other = LAB if ty == CAP else CAP
    wk = {CAP: W_CAPS, LAB: W_LABS}
    shape = rng.choice(['single', 'def', 'ref'])
    inner = []
    if mode == 0:
        if shape == 'ref':
            inner = [[W_POOL, rng.choice(PNAMES[:5])]]
        else:
            inner = [[W_POOL_ID, '_' if shape == 'single' else rng.choice(PNAMES[:5])],
                     [wk[ty], gen_details(rng, ty)]]
        return inner
    r = rng.randrange(9)
    if r == 0:      # details on a reference
        inner = [[W_POOL, rng.choice(PNAMES)], [wk[rng.choice([ty, other])], gen_details(rng, ty)]]
    elif r == 1:    # both kinds of content
        inner = [[W_POOL_ID, rng.choice(PNAMES)], [W_CAPS, gen_details(rng, CAP)], [W_LABS, gen_details(rng, LAB)]]
    elif r == 2:    # only the other kind
        inner = [[W_POOL_ID, rng.choice(PNAMES)], [wk[other], gen_details(rng, other)]]
    elif r == 3:    # no pool key at all
        inner = [] if rng.random() < 0.5 else [[wk[ty], gen_details(rng, ty)]]
    elif r == 4:    # definition and reference keys together
        inner = [[W_POOL, rng.choice(PNAMES)], [W_POOL_ID, rng.choice(PNAMES)], [wk[ty], gen_details(rng, ty)]]
    elif r == 5:    # invalid / ill-typed details
        inner = [[W_POOL_ID, rng.choice(PNAMES)], [wk[ty], gen_details(rng, ty, bad=1.0)]]
    elif r == 6:    # details of the other class under this type's key
        inner = [[W_POOL_ID, rng.choice(PNAMES)], [wk[ty], gen_details(rng, other)]]
    elif r == 7:    # empty details
        inner = [[W_POOL_ID, rng.choice(PNAMES)], [wk[ty], gen_details(rng, ty, empty=1.0)]]
    else:           # definition without details
        inner = [[W_POOL_ID, rng.choice(PNAMES)]]
    rng.shuffle(inner)
    return inner


def gen_doc(rng, ty, bad):
    ids = rng.sample(IDS, rng.randrange(1, 5))
    return [[i, gen_inner(rng, ty, 1 if rng.random() < bad else 0)] for i in ids]


def doc_ddicts(doc, kinds=(W_LABS, W_CAPS)):
    return [vv for _, inner in doc for kk, vv in inner if kk in kinds and vv is not None]


def decoded_matches_doc(ty, doc, dec):
    """independent reading of a document: expected (id, format, pool, non-default details) per entry"""
    exp = []
    wk = W_CAPS if ty == CAP else W_LABS
    for k, inner in doc:
        d = dict(inner)
        if W_POOL_ID in d:
            fmt, pool = (3, None) if d[W_POOL_ID] == '_' else (1, d[W_POOL_ID])
            exp.append([k, fmt, pool, {kk: vv for kk, vv in d[wk]}])
        else:
            exp.append([k, 2, d[W_POOL], None])
    got = []
    default = 0 if ty == CAP else None
    fields = cap_fields() if ty == CAP else lab_fields()
    for dd in dec[1]:
        det = None if dd[4] is None else {f: v for f, v in zip(fields, dd[4][1]) if v != default}
        got.append([dd[1], dd[2], dd[3], det])
    for e in exp:
        if e[3] is not None:
            e[3] = {k: v for k, v in e[3].items() if v != default}
    return None if exp == got else 'decoded delegations %r differ from the document %r' % (got, exp)


class Json(Stream):
    name = 'json'
    header = HEADER
    case_type = '(verdicts * dtype * jdoc) * val'
    check_fn = 'check_json'
    rule = ('hand-made JSON documents of 1..4 delegation ids: the three shapes to_json produces and nine ill-formed '
            'shapes (details on a reference, both kinds of content, wrong kind only, no pool key, both pool keys, invalid / '
            'ill-typed / foreign / empty details, definition without details), keys in random order; decoded with '
            'from_json, re-encoded; non-trivial = decoded successfully with >= 2 entries or rejected; distinct by case value')

    def gen(self, rng, tier):
        self.shard = 130 if tier == 'quick' else 400   # small shards: the quick tier then uses all jobs
        n = 300 if tier == 'quick' else 8000
        out = []
        for _ in range(n):
            ty = rng.choice([CAP, LAB])
            out.append({'ty': ty, 'doc': gen_doc(rng, ty, rng.choice([0.0, 0.0, 0.3, 0.6]))})
        return out

    def corpus(self):
        return [
            {'ty': LAB, 'doc': [['del1', [[W_POOL_ID, '_'], [W_LABS, [['vlan_range', '1-100']]]]],
                                ['del2', [[W_POOL_ID, 'pool1'], [W_LABS, [['vlan_range', '101-200']]]]],
                                ['del3', [[W_POOL, 'pool1']]]]},
            {'ty': CAP, 'doc': [['d1', [[W_POOL, 'p'], [W_CAPS, [['cpu', 1]]]]]]},
            {'ty': CAP, 'doc': [['d1', [[W_POOL_ID, 'p'], [W_CAPS, [['cpu', 1]]], [W_LABS, [['vlan', '3']]]]]]},
            {'ty': LAB, 'doc': [['d1', [[W_POOL_ID, 'p'], [W_CAPS, [['cpu', 1]]]]]]},
            {'ty': LAB, 'doc': [['d1', []]]},
        ] + [c for c in load_corpus('json')]

    def observe(self, case):
        D, CL = lib()
        text = doc_text(case['doc'])
        re_enc, redec = None, None
        try:
            ds = D.Delegations.from_json(json_str=text, atype=T(case['ty']))
            dec = [obs_delegations(ds)]
        except Exception as e:
            dec = err(e)
            ds = None
        if ds is not None:
            try:
                t2 = ds.to_json()
                re_enc = [obs_jdoc(t2)]
                try:
                    redec = [obs_delegations(D.Delegations.from_json(json_str=t2, atype=T(case['ty'])))]
                except Exception as e:
                    redec = err(e)
            except Exception as e:
                re_enc = err(e)
        return {'dec': dec, 'reenc': re_enc, 'redec': redec, 'verdicts': verdicts_for(doc_ddicts(case['doc'], (W_LABS,)))}

    def to_coq(self, case, o):
        return '((%s, %s, %s), %s)' % (c_verdicts(o['verdicts']), c_ty(case['ty']), c_jdoc(case['doc']),
                                       py_val([o['dec'], o['reenc']]))

    def expected_reject(self, case):
        """entries that the property says must be rejected, by reading the document only"""
        ty = case['ty']
        wk, wo = (W_CAPS, W_LABS) if ty == CAP else (W_LABS, W_CAPS)
        for k, inner in case['doc']:
            d = dict(inner)
            if W_POOL_ID not in d and W_POOL not in d:
                return 'no pool key'
            if W_POOL_ID not in d and (W_CAPS in d or W_LABS in d):
                return 'details on a pool reference'
            if W_POOL_ID in d and W_CAPS in d and W_LABS in d:
                return 'capacities and labels mixed in one entry'
            if W_POOL_ID in d and wk not in d:
                return 'wrong kind of content'
        return None

    def details_valid(self, case, o):
        ty = case['ty']
        wk = W_CAPS if ty == CAP else W_LABS
        return all(ddict_valid(ty, d, o['verdicts']) for d in doc_ddicts(case['doc'], (wk,)))

    def oracle(self, case, o):
        rej = self.expected_reject(case)
        if rej:
            if not is_err(o['dec']):
                return 'from_json accepted a document that must be rejected (%s)' % rej
            return None
        if not self.details_valid(case, o):
            if not is_err(o['dec']):
                return 'from_json accepted invalid details'
            return None
        if is_err(o['dec']):
            return 'from_json refused a well-formed document: ' + o['dec']['err']
        why = decoded_matches_doc(case['ty'], case['doc'], o['dec'][0])
        if why:
            return why
        if not is_err(o['reenc']):
            if is_err(o['redec']) or o['redec'] != o['dec']:
                return 'decode(encode(decode(doc))) differs from decode(doc)'
        return None

    def key(self, case, o):
        if is_err(o['dec']) or len(o['dec'][0][1]) >= 2:
            return stable_hash(case)
        return None

    def histogram(self, cases, obs):
        h = {'decoded': 0, 'rejected': {}}
        for c, o in zip(cases, obs):
            if is_err(o['dec']):
                h['rejected'][o['dec']['err']] = h['rejected'].get(o['dec']['err'], 0) + 1
            else:
                h['decoded'] += 1
        return h

    def describe(self, case, o):
        return {'case': case, 'impl': {'dec': o['dec'], 'reenc': o['reenc']}}

    def shrink(self, case, failing):
        return shrink_lists(case, [['doc']], failing)


# ------------------------------------------------------------------------------------------------
# stream pools
# ------------------------------------------------------------------------------------------------

def c_pool_op(op, det_obs):
    k = op[0]
    if k == 'deleg':
        return '(PSetDeleg %s)' % cstr(op[1])
    if k == 'on':
        return '(PSetOn %s)' % cstr(op[1])
    if k == 'setfor':
        return '(PSetFor %s)' % clist([cstr(x) for x in op[1]])
    if k == 'add1':
        return '(PAddFor1 %s)' % cstr(op[1])
    if k == 'addl':
        return '(PAddForL %s)' % clist([cstr(x) for x in op[1]])
    if k == 'details':
        return '(PSetDetails %s)' % c_det_obs(det_obs)
    raise ValueError(op)


def c_pspec(s, dets):
    return '(mkPS %s %s %s %s %s %s)' % (c_ty(s['ptype']), cstr(s['pid']), c_optstr(s['did']), c_optstr(s['on']),
                                         clist([cstr(x) for x in s['for']]),
                                         clist([c_pool_op(op, dets[i]) for i, op in enumerate(s['ops'])]))


def build_pool(s):
    """-> (Pool, per-op outcomes, per-op details observation)"""
    D, CL = lib()
    p = D.Pool(atype=T(s['ptype']), pool_id=s['pid'], delegation_id=s['did'], defined_on=s['on'],
               defined_for=list(s['for']))
    outs, dets = [], []
    for op in s['ops']:
        det = None
        try:
            if op[0] == 'deleg':
                p.set_delegation_id(delegation_id=op[1])
            elif op[0] == 'on':
                p.set_defined_on(op[1])
            elif op[0] == 'setfor':
                p.set_defined_for(list(op[1]))
            elif op[0] == 'add1':
                p.add_defined_for(op[1])
            elif op[0] == 'addl':
                p.add_defined_for(list(op[1]))
            elif op[0] == 'details':
                obj = mk_obj(op[1], op[2])        # the generator only produces constructible details here
                det = obs_det(obj)
                p.set_pool_details(obj)
            outs.append(True)
        except Exception as e:
            outs.append(err(e))
        dets.append(det)
    return p, outs, dets


def build_family(ty, specs):
    D, CL = lib()
    ps = D.Pools(atype=T(ty))
    outs, alldets = [], []
    for s in specs:
        p, o, dets = build_pool(s)
        try:
            ps.add_pool(pool=p)
            o = o + [True]
        except Exception as e:
            o = o + [err(e)]
        outs.append(o)
        alldets.append(dets)
    return ps, outs, alldets


def gen_pool_spec(rng, ty, pid, did, wf, used_slots=None):
    nodes = NODES
    on = rng.choice(nodes)
    k = rng.choice([1, 1, 2, 3, 4])
    others = [n for n in nodes if n != on]
    for_ = rng.sample(others, min(k, len(others)))
    kind = ty
    s = {'ptype': ty, 'pid': pid, 'did': did, 'on': on, 'for': for_, 'ops': []}
    if wf:
        if rng.random() < 0.3:
            s['for'] = for_ + [on] + for_[:1]         # the constructor removes defined_on and duplicates
        if rng.random() < 0.3:                        # through the setters instead of the constructor
            s2 = {'ptype': ty, 'pid': pid, 'did': None, 'on': None, 'for': [],
                  'ops': [['deleg', did], ['on', on], ['setfor', for_[:1]], ['addl', for_[1:]]]}
            if len(for_) > 1 and rng.random() < 0.5:
                s2['ops'][-1] = ['add1', for_[1]]
                s2['ops'] += [['addl', for_[2:]]]
            s = s2
        s['ops'].append(['details', kind, gen_details(rng, kind, empty=0.05)])
        return s
    r = rng.randrange(9)
    if r == 0:
        s['did'] = None
    elif r == 1:
        s['on'] = None
    elif r == 2:
        s['for'] = [] if rng.random() < 0.5 else [on]
    elif r == 3:
        pass                                           # no details
    elif r == 4:
        kind = LAB if ty == CAP else CAP                # details of the other class
    elif r == 5:
        s['ops'].append(['setfor', for_ + [on]])        # defined_on inside defined_for
    elif r == 6:
        s['ops'].append(['add1', on])
    elif r == 7:
        s['ptype'] = LAB if ty == CAP else CAP          # add_pool must refuse
    else:
        s['ops'].append(['setfor', []])                 # assertion
    if r != 3:
        s['ops'].append(['details', kind, gen_details(rng, kind)])
    return s


def family_expectation(ty, P):
    """from the observed pools (canonical list) only: 'invalid' | 'reserved' | 'conflict' | 'mismatch' | 'ok'"""
    tc = TY_CODE[ty]
    for p in P:
        if p[2] is None or p[3] is None or not p[4] or p[5] is None:
            return 'invalid'
    if any(p[1] == '_' for p in P):
        return 'reserved'
    slots = []
    mism = False
    for p in P:
        if p[5][0] != tc:
            mism = True
        slots += [(p[3], p[2])] + [(n, p[2]) for n in p[4]]
    if len(set(slots)) != len(slots):
        return 'conflict'
    if mism:
        return 'mismatch'
    return 'ok'


def expected_gmap(ty, P):
    """the shape the property prescribes: one definition on the defining node, one reference on each node of for_"""
    tc = TY_CODE[ty]
    exp = {}
    for p in P:
        exp.setdefault(p[3], {})[p[2]] = [tc, p[2], 1, p[1], p[5]]
        for n in p[4]:
            exp.setdefault(n, {})[p[2]] = [tc, p[2], 2, p[1], None]
    return exp


class PoolsS(Stream):
    name = 'pools'
    header = HEADER
    case_type = '(dtype * list pspec) * val'
    check_fn = 'check_pools'
    rule = ('thorough: EXHAUSTIVELY all 324 two-pool families over 3 nodes x 2 delegation ids (quick: 60 of them), plus random '
            'pool families of 1..4 pools over 6 nodes and 3 delegation ids (constructor and setter construction paths; '
            'a node may define one pool and reference another; shared delegation ids; conflicting (node, delegation id) '
            'slots; invalid pools: no delegation id / node / reference nodes / details, foreign details, defining node '
            'inside its own reference set, wrong pool type); build_index, generate, incorporate everything generated in two '
            'node orders; non-trivial = at least two pools and generate succeeded, or a rejection; distinct by case value')

    def exhaustive(self):
        """every family of two pools over three nodes and two delegation ids: defining node x non-empty reference set
        (of the other nodes) x delegation id, per pool: 18 x 18 = 324 families (incl. every conflicting one)"""
        import itertools
        nodes = NODES[:3]
        one = []
        for on in nodes:
            others = [n for n in nodes if n != on]
            for k in (1, 2):
                for for_ in itertools.combinations(others, k):
                    for did in IDS[:2]:
                        one.append((on, list(for_), did))
        out = []
        for a, b in itertools.product(one, one):
            specs = [{'ptype': LAB, 'pid': pid, 'did': x[2], 'on': x[0], 'for': x[1],
                      'ops': [['details', LAB, [['vlan_range', v]]]]}
                     for pid, x, v in (('p1', a, '1-100'), ('p2', b, '101-200'))]
            out.append({'ty': LAB, 'specs': specs})
        return out

    def gen(self, rng, tier):
        self.shard = 130 if tier == 'quick' else 400   # small shards: the quick tier then uses all jobs
        n = 250 if tier == 'quick' else 6000
        ex = self.exhaustive()
        out = ex if tier != 'quick' else rng.sample(ex, 60)
        for _ in range(n):
            ty = rng.choice([CAP, LAB])
            k = rng.choice([1, 2, 2, 3, 3, 4])
            mode = rng.randrange(10)
            pids = rng.sample(PNAMES[:5] + ['_'], k) if mode < 9 else [rng.choice(PNAMES[:3]) for _ in range(k)]
            dids = IDS[:3]
            specs = []
            for pid in pids:
                did = rng.choice(dids) if mode % 2 else dids[len(specs) % 3]
                specs.append(gen_pool_spec(rng, ty, pid, did, wf=(mode < 7 or rng.random() < 0.5)))
            out.append({'ty': ty, 'specs': specs})
        return out

    def corpus(self):
        lv = lambda v: ['details', LAB, [['vlan_range', v]]]
        return [
            # the repository's two-pool example
            {'ty': LAB, 'specs': [
                {'ptype': LAB, 'pid': 'pool1', 'did': 'del1', 'on': 'node-1', 'for': ['node-2', 'node-3'], 'ops': [lv('1-100')]},
                {'ptype': LAB, 'pid': 'pool2', 'did': 'del2', 'on': 'node-2', 'for': ['node-1', 'node-4', 'node-5'], 'ops': [lv('101-200')]}]},
            # a node defines one pool and references another, same delegation id on that node: conflict
            {'ty': LAB, 'specs': [
                {'ptype': LAB, 'pid': 'pool1', 'did': 'del1', 'on': 'node-1', 'for': ['node-2'], 'ops': [lv('1-100')]},
                {'ptype': LAB, 'pid': 'pool2', 'did': 'del1', 'on': 'node-2', 'for': ['node-3'], 'ops': [lv('101-200')]}]},
            # defining node inside its own reference set (through the setters)
            {'ty': CAP, 'specs': [
                {'ptype': CAP, 'pid': 'p', 'did': 'd', 'on': 'node-0', 'for': ['node-1'],
                 'ops': [['add1', 'node-0'], ['details', CAP, [['cpu', 2]]]]}]},
        ] + [c for c in load_corpus('pools')]

    def observe(self, case):
        D, CL = lib()
        ty = case['ty']
        ps, outs, dets = build_family(ty, case['specs'])
        P = obs_pools(ps)
        g_obs, re1, re2 = None, None, None
        try:
            ps.build_index_by_delegation_id()
            idx = [[[k, [p.pool_id for p in v]] for k, v in ps.pools_by_delegation.items()]]
        except Exception as e:
            idx = err(e)
        if not is_err(idx):
            try:
                g = ps.generate_delegations_by_node_id()
                g_obs = [obs_gmap(g)]
            except Exception as e:
                g_obs = err(e)
                g = None
            if g is not None:
                for order in (list(g.items()), sorted(g.items(), reverse=True)):
                    ps1 = D.Pools(atype=T(ty))
                    try:
                        for n, d in order:
                            ps1.incorporate_delegation(node_id=n, deleg=d)
                        r = [obs_pools(ps1)]
                    except Exception as e:
                        r = err(e)
                    if re1 is None:
                        re1 = r
                    else:
                        re2 = r
        return {'outs': outs, 'P': P, 'idx': idx, 'g': g_obs, 're1': re1, 're2': re2, 'dets': dets,
                'P_after': obs_pools(ps)}

    def to_coq(self, case, o):
        return '((%s, %s), %s)' % (c_ty(case['ty']), clist([c_pspec(s, d) for s, d in zip(case['specs'], o['dets'])]),
                                   py_val([o['outs'], o['P'], o['idx'], o['g'], o['re1']]))

    def oracle(self, case, o):
        ty = case['ty']
        P = o['P']
        if o['P_after'] != P:
            return 'indexing / generating / regrouping modified the pools'
        for s, out in zip(case['specs'], o['outs']):
            if s['ptype'] != ty and not (is_err(out[-1]) and out[-1]['err'] == 'PoolException'):
                return 'a pool of the other type was added'
        # the registry holds what was asked for: the last accepted pool per id, and for a pool given entirely to the
        # constructor: its delegation id, defining node, and defined_for as a set without the defining node
        want = {}
        for s, out in zip(case['specs'], o['outs']):
            if not is_err(out[-1]):
                want[s['pid']] = s
        if sorted(want) != [p[1] for p in P]:
            return 'the registry does not hold exactly the accepted pools'
        for p in P:
            s = want[p[1]]
            if all(op[0] == 'details' for op in s['ops']):
                if [p[2], p[3], p[4]] != [s['did'], s['on'], sorted(set(s['for']) - {s['on']})]:
                    return 'Pool(...) does not hold its arguments (defined_for as a set without defined_on): %r vs %r' % (p, s)
        exp = family_expectation(ty, P)
        if exp == 'invalid':
            if not (is_err(o['idx']) and o['idx']['err'] == 'PoolException'):
                return 'an incomplete pool was indexed'
            return None
        if is_err(o['idx']):
            return 'build_index refused complete pools: ' + o['idx']['err']
        # index: every pool exactly once under its delegation id
        got = sorted((k, pid) for k, pids in o['idx'][0] for pid in pids)
        if got != sorted((p[2], p[1]) for p in P):
            return 'the by-delegation index does not list every pool once under its delegation id'
        if exp in ('conflict', 'mismatch', 'reserved'):
            if not (is_err(o['g']) and o['g']['err'] == 'DelegationException'):
                return 'regroup %s not rejected: %s' % (exp, {'conflict': 'a node takes part in two pools under one delegation id',
                                                              'mismatch': 'pool details of the other class',
                                                              'reserved': 'a pool named "_" cannot be written as a definition'}[exp])
            return None
        if is_err(o['g']):
            return 'generate refused a well-formed family: ' + o['g']['err']
        expg = expected_gmap(ty, P)
        gotg = {n: {d[1]: d for d in ds[1]} for n, ds in o['g'][0]}
        if any(len(ds[1]) != len(gotg[n]) for n, ds in o['g'][0]):
            return 'duplicate delegation ids on a node'
        if gotg != expg:
            return 'per-node delegations differ from one definition on the defining node + one reference per node of for_'
        for r in (o['re1'], o['re2']):
            if is_err(r):
                return 'reading the generated delegations back raised ' + r['err']
            if r[0] != P:
                return 'pools -> per-node delegations -> pools is not the identity: %r vs %r' % (r[0], P)
        return None

    def key(self, case, o):
        if is_err(o['idx']) or is_err(o['g']) or (o['g'] and len(o['P']) >= 2):
            return stable_hash(case)
        return None

    def histogram(self, cases, obs):
        h = {'ok': 0, 'invalid': 0, 'reserved': 0, 'conflict': 0, 'mismatch': 0, 'n_pools': {}, 'defines_and_references': 0}
        for c, o in zip(cases, obs):
            e = family_expectation(c['ty'], o['P'])
            h[e] += 1
            k = str(len(o['P']))
            h['n_pools'][k] = h['n_pools'].get(k, 0) + 1
            ons = {p[3] for p in o['P']}
            h['defines_and_references'] += any(n in ons for p in o['P'] for n in p[4])
        return h

    def describe(self, case, o):
        return {'case': case, 'impl': {k: o[k] for k in ('P', 'idx', 'g', 're1')}}

    def shrink(self, case, failing):
        paths = [['specs']] + [['specs', i, 'for'] for i in range(len(case['specs']))]
        c = shrink_lists(case, [['specs']], failing)
        return shrink_lists(c, [['specs', i, 'for'] for i in range(len(c['specs']))], failing)


# ------------------------------------------------------------------------------------------------
# stream inc
# ------------------------------------------------------------------------------------------------
class Inc(Stream):
    name = 'inc'
    header = HEADER
    case_type = '(verdicts * dtype * list (str * dtype * jdoc)) * val'
    check_fn = 'check_inc'
    rule = ('1..5 per-node documents (consistent ones derived from a pool family, and inconsistent ones: second '
            'definition of a pool, references under another delegation id, references to an undefined pool, single-pool '
            'entries, documents of the other type) decoded with from_json and incorporated in the given order; '
            'non-trivial = at least two pools result or the run is rejected; distinct by case value')

    def gen(self, rng, tier):
        self.shard = 130 if tier == 'quick' else 400   # small shards: the quick tier then uses all jobs
        n = 200 if tier == 'quick' else 5000
        out = []
        for _ in range(n):
            ty = rng.choice([CAP, LAB])
            wk = W_CAPS if ty == CAP else W_LABS
            nodes = []
            for node in rng.sample(NODES, rng.randrange(1, 6)):
                dty = ty if rng.random() < 0.93 else (LAB if ty == CAP else CAP)
                dwk = W_CAPS if dty == CAP else W_LABS
                doc = []
                for i in rng.sample(IDS[:4], rng.randrange(1, 4)):
                    r = rng.randrange(10)
                    if r < 3:
                        doc.append([i, [[W_POOL_ID, rng.choice(PNAMES[:3])], [dwk, gen_details(rng, dty)]]])
                    elif r < 8:
                        doc.append([i, [[W_POOL, rng.choice(PNAMES[:3])]]])
                    elif r < 9:
                        doc.append([i, [[W_POOL_ID, '_'], [dwk, gen_details(rng, dty)]]])
                    else:
                        doc.append([i, gen_inner(rng, dty, 1)])
                nodes.append([node, dty, doc])
            out.append({'ty': ty, 'nodes': nodes})
        return out

    def corpus(self):
        c = [['cpu', 4]]
        return [
            {'ty': CAP, 'nodes': [['node-0', CAP, [['d1', [[W_POOL_ID, 'p'], [W_CAPS, c]]]]],
                                  ['node-1', CAP, [['d1', [[W_POOL, 'p']]]]],
                                  ['node-2', CAP, [['d2', [[W_POOL, 'p']]]]]]},
            {'ty': CAP, 'nodes': [['node-0', CAP, [['d1', [[W_POOL_ID, 'p'], [W_CAPS, c]]]]],
                                  ['node-1', CAP, [['d1', [[W_POOL_ID, 'p'], [W_CAPS, c]]]]]]},
        ] + [c for c in load_corpus('inc')]

    def observe(self, case):
        D, CL = lib()
        ps = D.Pools(atype=T(case['ty']))
        try:
            for node, dty, doc in case['nodes']:
                ds = D.Delegations.from_json(json_str=doc_text(doc), atype=T(dty))
                ps.incorporate_delegation(node_id=node, deleg=ds)
            r = [obs_pools(ps)]
        except Exception as e:
            r = err(e)
        return {'r': r, 'verdicts': verdicts_for([d for _, _, doc in case['nodes'] for d in doc_ddicts(doc, (W_LABS,))])}

    def to_coq(self, case, o):
        nodes = clist(['(%s, %s, %s)' % (cstr(n), c_ty(t), c_jdoc(d)) for n, t, d in case['nodes']])
        return '((%s, %s, %s), %s)' % (c_verdicts(o['verdicts']), c_ty(case['ty']), nodes, py_val(o['r']))

    def oracle(self, case, o):
        """only the part of the property that speaks about reading back: a pool defined twice is refused; when
        every document is one to_json produces, each pool's defining node / reference nodes are the nodes carrying
        its definition / references"""
        ty = case['ty']
        defs, refs, clean = {}, {}, True
        for node, dty, doc in case['nodes']:
            if dty != ty:
                clean = False
            for k, inner in doc:
                d = dict(inner)
                wk = W_CAPS if dty == CAP else W_LABS
                if set(d) == {W_POOL_ID, wk}:
                    if not ddict_valid(dty, d[wk], o['verdicts']):
                        clean = False
                    if d[W_POOL_ID] != '_':
                        defs.setdefault(d[W_POOL_ID], []).append(node)
                elif set(d) == {W_POOL}:
                    refs.setdefault(d[W_POOL], set()).add(node)
                else:
                    clean = False
        if not clean:
            return None
        if any(len(v) > 1 for v in defs.values()):
            if not (is_err(o['r']) and o['r']['err'] == 'PoolException'):
                return 'a pool defined on two nodes was not rejected'
            return None
        if is_err(o['r']):
            return 'reading consistent documents back raised ' + o['r']['err']
        got = {p[1]: (p[3], p[4]) for p in o['r'][0]}
        exp = {pn: ((defs.get(pn) or [None])[0], sorted(refs.get(pn, set()))) for pn in set(defs) | set(refs)}
        if got != exp:
            return 'pools read back %r differ from the documents %r' % (got, exp)
        return None

    def key(self, case, o):
        if is_err(o['r']) or len(o['r'][0]) >= 2:
            return stable_hash(case)
        return None

    def histogram(self, cases, obs):
        h = {'ok': 0}
        for o in obs:
            if is_err(o['r']):
                h[o['r']['err']] = h.get(o['r']['err'], 0) + 1
            else:
                h['ok'] += 1
        return h

    def describe(self, case, o):
        return {'case': case, 'impl': o['r']}

    def shrink(self, case, failing):
        return shrink_lists(case, [['nodes']], failing)


# ------------------------------------------------------------------------------------------------
# stream annotate
# ------------------------------------------------------------------------------------------------
class Annotate(Stream):
    name = 'annotate'
    header = HEADER
    case_type = '(verdicts * dtype * list pspec * list (str * dtype * list spec)) * val'
    check_fn = 'check_annotate'
    rule = ('a pool family plus single-pool delegations on further elements written into a real NetworkX ARM graph with '
            'EVERY element kind that can carry a delegation (server node, GPU component, NIC component and its port, switch '
            'node, network service of the switch, port of that service) by annotate_delegations_and_pools (mode direct) or by Topology.single_delegation from the nodes\' own '
            'capacities / labels (mode single), read back with get_delegations and incorporated; incl. a single delegation '
            'on a node that takes part in a pool (rejected) and of the other type; non-trivial = at least one pool and one '
            'single delegation written, or a rejection; distinct by case value')

    def gen(self, rng, tier):
        self.shard = 130 if tier == 'quick' else 400   # small shards: the quick tier then uses all jobs
        n = 200 if tier == 'quick' else 3000
        out = []
        for _ in range(n):
            ty = rng.choice([CAP, LAB])
            mode = 'single' if rng.random() < 0.35 else 'direct'
            k = rng.choice([0, 1, 1, 2, 3])
            did = rng.choice(IDS[:4])
            specs, used = [], set()
            for pid in rng.sample(PNAMES[:5], k):
                pdid = did if mode == 'single' else rng.choice(IDS[:3])
                s = gen_pool_spec(rng, ty, pid, pdid, wf=rng.random() < 0.9)
                specs.append(s)
                used.add(s['on'])
                used.update(s['for'])
            singles = []
            free = [x for x in NODES if x not in used]
            cand = free if rng.random() < 0.8 else NODES
            for node in rng.sample(cand, min(len(cand), rng.choice([0, 1, 2, 3]))):
                if mode == 'single':
                    singles.append([node, ty, [{'type': ty, 'id': did, 'fmt': 'single', 'pool': None,
                                                'details': [ty, gen_details(rng, ty)]}]])
                else:
                    sty = ty if rng.random() < 0.93 else (LAB if ty == CAP else CAP)
                    sp = [{'type': sty, 'id': i, 'fmt': 'single', 'pool': None,
                           'details': [sty, gen_details(rng, sty, empty=0.04)]} for i in rng.sample(IDS[:4], rng.choice([1, 1, 2]))]
                    singles.append([node, sty, sp])
            out.append({'ty': ty, 'mode': mode, 'did': did, 'specs': specs, 'singles': singles})
        return out

    def corpus(self):
        return [
            {'ty': LAB, 'mode': 'direct', 'did': 'd1', 'specs': [
                {'ptype': LAB, 'pid': 'p1', 'did': 'd1', 'on': 'node-0', 'for': ['node-1', 'node-2'],
                 'ops': [['details', LAB, [['vlan_range', '1-100']]]]}],
             'singles': [['node-3', LAB, [{'type': LAB, 'id': 'd1', 'fmt': 'single', 'pool': None,
                                          'details': [LAB, [['vlan', '3']]]}]]]},
        ] + [c for c in load_corpus('annotate')]

    def observe(self, case):
        D, CL = lib()
        import fim.user as fu
        from fim.graph.abc_property_graph import ABCPropertyGraph
        ty = case['ty']
        ps, outs, dets = build_family(ty, case['specs'])
        P = obs_pools(ps)
        res = {'P': P, 'dets': dets, 'idx': True, 'props': None, 'back': None, 'pools': None, 'singles_built': None}
        lab_dd = [sp['details'][1] for _, _, sps in case['singles'] for sp in sps if sp['details'] and sp['details'][0] == LAB]
        res['verdicts'] = verdicts_for(lab_dd)
        try:
            ps.build_index_by_delegation_id()
        except Exception as e:
            res['idx'] = err(e)
            return res
        topo = fu.SubstrateTopology()
        try:
            dels = {}
            built = []
            for node, sty, sps in case['singles']:
                ds = D.Delegations(atype=T(sty))
                for sp in sps:
                    d = D.Delegation(atype=T(sp['type']), delegation_id=sp['id'], aformat=F(sp['fmt']), pool_id=sp['pool'])
                    d.set_details(mk_obj(sp['details'][0], sp['details'][1]))
                    ds.add_delegations(d)
                dels[node] = ds
                built.append([node, obs_delegations(ds)])
            res['singles_built'] = built
            # a model with every element kind that can carry a delegation: node-0 a server node, node-1 a GPU component
            # on it, node-2 the interface of a NIC component ('nic-comp', service 'nic-ns') on it, node-3 a switch node,
            # node-4 a network service of the switch, node-5 an interface of that service
            def own(nid):
                if case['mode'] == 'single' and nid in dels:
                    obj = dels[nid].get_delegations_as_list()[0].get_details()
                    return {'capacities': obj} if ty == CAP else {'labels': obj}
                return {}
            n0 = topo.add_node(name='nd0', site='S1', node_id=NODES[0], **own(NODES[0]))
            n0.add_component(name='nd0-gpu1', model='Tesla T4', node_id=NODES[1], ctype=fu.ComponentType.GPU, **own(NODES[1]))
            ikw = {'interface_labels': [own(NODES[2])['labels'] if 'labels' in own(NODES[2]) else CL.Labels()]}
            nic = n0.add_component(name='nd0-nic1', model='ConnectX-6', node_id='nic-comp', network_service_node_id='nic-ns',
                                   interface_node_ids=[NODES[2]], ctype=fu.ComponentType.SharedNIC, **ikw)
            sw = topo.add_node(name='sw0', site='S1', node_id=NODES[3], ntype=fu.NodeType.Switch, **own(NODES[3]))
            ns = sw.add_network_service(name='sw0-ns', node_id=NODES[4], nstype=fu.ServiceType.MPLS, **own(NODES[4]))
            ifc = ns.add_interface(name='p1', node_id=NODES[5], itype=fu.InterfaceType.TrunkPort, **own(NODES[5]))
            all_ids = NODES + ['nic-comp', 'nic-ns']
            if case['mode'] == 'single':
                # what single_delegation will copy: the capacities / labels every element REALLY has (the component
                # catalogue gives NIC components and their ports some of their own)
                elements = [n0] + list(n0.components.values()) + [i for c in n0.components.values() for i in c.interface_list] \
                    + [sw, ns] + list(ns.interface_list)
                eff, built = [], []
                for e in elements:
                    obj = e.get_property(pname='capacities' if ty == CAP else 'labels')
                    if obj is None:
                        continue
                    dd = [[k, v] for k, v in obj.__dict__.items() if v is not None and not (ty == CAP and v == 0)]
                    d = D.Delegation(atype=T(ty), delegation_id=case['did'], aformat=F('single'))
                    d.set_details(obj)
                    ds1 = D.Delegations(atype=T(ty))
                    ds1.add_delegations(d)
                    eff.append([e.node_id, ty, [{'type': ty, 'id': case['did'], 'fmt': 'single', 'pool': None, 'details': [ty, dd]}]])
                    built.append([e.node_id, obs_delegations(ds1)])
                res['singles_built'] = built
                res['effective_singles'] = eff
                res['verdicts'] = verdicts_for([sp['details'][1] for _, _, sps in eff for sp in sps if ty == LAB])
            arm = topo.as_arm()
            pname = ABCPropertyGraph.PROP_CAPACITY_DELEGATIONS if ty == CAP else ABCPropertyGraph.PROP_LABEL_DELEGATIONS
            try:
                if case['mode'] == 'single':
                    empty = D.Pools(atype=T(LAB if ty == CAP else CAP))
                    topo.single_delegation(delegation_id=case['did'],
                                           label_pools=ps if ty == LAB else empty,
                                           capacity_pools=ps if ty == CAP else empty)
                else:
                    arm.annotate_delegations_and_pools(dels=dels, pools=ps)
                props = {}
                other = ABCPropertyGraph.PROP_LABEL_DELEGATIONS if ty == CAP else ABCPropertyGraph.PROP_CAPACITY_DELEGATIONS
                stray = []
                for nid in all_ids:
                    _, p = arm.get_node_properties(node_id=nid)
                    if p.get(pname) is not None:
                        props[nid] = obs_jdoc(p[pname])
                    if p.get(other) is not None and case['mode'] != 'single':
                        stray.append(nid)      # (single_delegation also runs the pass of the other type)
                res['props'] = [[[n, d] for n, d in sorted(props.items())]]
                res['stray'] = stray
            except Exception as e:
                res['props'] = err(e)
            if not is_err(res['props']):
                try:
                    g = {}
                    for nid in sorted(props):
                        g[nid] = arm.get_delegations(node_id=nid, delegation_type=T(ty))
                    res['back'] = [obs_gmap(g)]
                except Exception as e:
                    res['back'] = err(e)
                    g = None
                if g is not None:
                    ps1 = D.Pools(atype=T(ty))
                    try:
                        for n, d in g.items():
                            ps1.incorporate_delegation(node_id=n, deleg=d)
                        res['pools'] = [obs_pools(ps1)]
                    except Exception as e:
                        res['pools'] = err(e)
        finally:
            try:
                topo.graph_model.delete_graph()
            except Exception:
                pass
        return res

    def to_coq(self, case, o):
        if is_err(o['idx']):
            obs = [o['idx']]
        else:
            obs = [o['props'], None if is_err(o['props']) else [o['back'], o['pools']]]
        singles = clist(['(%s, %s, %s)' % (cstr(n), c_ty(t), clist([c_spec(s) for s in sps]))
                         for n, t, sps in o.get('effective_singles', case['singles'])])
        return '((%s, %s, %s, %s), %s)' % (c_verdicts(o['verdicts']), c_ty(case['ty']),
                                           clist([c_pspec(s, d) for s, d in zip(case['specs'], o['dets'])]),
                                           singles, py_val(obs))

    def oracle(self, case, o):
        ty = case['ty']
        P = o['P']
        exp = family_expectation(ty, P)
        if exp == 'invalid':
            return None if is_err(o['idx']) else 'an incomplete pool was indexed'
        if is_err(o['idx']):
            return 'build_index refused complete pools: ' + o['idx']['err']
        pool_nodes = {p[3] for p in P} | {n for p in P for n in p[4]}
        singles = {n: ds for n, ds in (o['singles_built'] or [])}
        tc = TY_CODE[ty]
        must_fail = exp != 'ok' or any(n in pool_nodes for n in singles) \
            or any(not nonempty_det(d[4]) for ds in singles.values() for d in ds[1]) \
            or any(p[5] is None or not nonempty_det(p[5]) for p in P)
        if must_fail:
            if not is_err(o['props']):
                return 'annotate accepted a conflicting / unencodable assignment'
            return None
        if is_err(o['props']):
            return 'annotate refused a well-formed assignment: ' + o['props']['err']
        if o.get('stray'):
            return 'the property of the other delegation type was written on %r' % o['stray']
        foreign = any(ds[0] != tc for ds in singles.values())
        if foreign:
            if not is_err(o['back']):
                return 'delegations of the other type were read back'
            return None
        if is_err(o['back']):
            return 'get_delegations raised %s on an annotated node' % o['back']['err']
        expg = expected_gmap(ty, P)
        for n, ds in singles.items():
            expg[n] = {d[1]: d for d in ds[1]}
        gotg = {n: {d[1]: d for d in ds[1]} for n, ds in o['back'][0]}
        if gotg != expg:
            return 'delegations read back from the graph differ from what was annotated'
        if is_err(o['pools']) or o['pools'][0] != P:
            return 'pools read back from the graph differ: %r vs %r' % (o['pools'], P)
        return None

    def key(self, case, o):
        if is_err(o['idx']) or is_err(o['props']) or (o['P'] and case['singles']):
            return stable_hash(case)
        return None

    def histogram(self, cases, obs):
        h = {'written': 0, 'index_refused': 0, 'annotate_refused': {}, 'mode_single': 0, 'readback_refused': 0}
        for c, o in zip(cases, obs):
            h['mode_single'] += c['mode'] == 'single'
            if is_err(o['idx']):
                h['index_refused'] += 1
            elif is_err(o['props']):
                h['annotate_refused'][o['props']['err']] = h['annotate_refused'].get(o['props']['err'], 0) + 1
            else:
                h['written'] += 1
                h['readback_refused'] += is_err(o['back'])
        return h

    def describe(self, case, o):
        return {'case': case, 'impl': {k: o.get(k) for k in ('props', 'back', 'pools')}}

    def shrink(self, case, failing):
        c = shrink_lists(case, [['specs'], ['singles']], failing)
        paths = [['specs', i, 'for'] for i in range(len(c['specs']))]
        paths += [['specs', i, 'ops'] for i in range(len(c['specs']))]
        paths += [['singles', i, 2] for i in range(len(c['singles']))]
        paths += [['singles', i, 2, j, 'details', 1] for i in range(len(c['singles'])) for j in range(len(c['singles'][i][2]))]
        return shrink_lists(c, paths, failing)


# ------------------------------------------------------------------------------------------------
# stream hist: ONE Pools object, multi-step histories
# ------------------------------------------------------------------------------------------------

def c_hop(op, dets):
    k = op[0]
    if k == 'new':
        return '(HNew %s)' % c_pspec(op[1], dets)
    if k == 'pool':
        return '(HPool %s %s)' % (cnat(op[1]), c_pool_op(op[2], dets))
    if k == 'add':
        return '(HAdd %s)' % cnat(op[1])
    if k == 'getpool':
        return '(HGetPool %s)' % cstr(op[1])
    if k == 'q':
        q = {'nodeids': lambda: '(QNodeIds %s)' % cstr(op[2]), 'delegids': lambda: 'QDelegIds',
             'poolsby': lambda: '(QPoolsBy %s)' % cstr(op[2]), 'getstrict': lambda: '(QGetStrict %s)' % cstr(op[2]),
             'validate': lambda: 'QValidate', 'type': lambda: 'QType',
             'poolget': lambda: '(QPoolGet %s)' % cnat(dets)}[op[1]]()      # dets = heap position of the object
        return '(HQuery %s)' % q
    if k == 'inc':      # dets = the observed delegations that were handed to incorporate_delegation
        return '(HInc %s %s %s)' % (cstr(op[1]), c_ty(op[2]), clist([c_deleg_obs(d) for d in dets]))
    return {'index': 'HIndex', 'generate': 'HGenerate', 'regroup': 'HRegroup'}[k]


def c_deleg_obs(d):
    """observation [type, id, format, pool, details] of a real Delegation -> deleg term"""
    return '(mkD %s %s %s %s %s)' % ('TCap' if d[0] == 1 else 'TLab', cstr(d[1]), {1: 'FDef', 2: 'FRef', 3: 'FSingle'}[d[2]],
                                     c_optstr(d[3]), 'None' if d[4] is None else '(Some %s)' % c_det_obs(d[4]))


def apply_pool_op(p, op):
    """one setter call on a Pool object -> (outcome, details observation)"""
    det = None
    try:
        if op[0] == 'deleg':
            p.set_delegation_id(delegation_id=op[1])
        elif op[0] == 'on':
            p.set_defined_on(op[1])
        elif op[0] == 'setfor':
            p.set_defined_for(list(op[1]))
        elif op[0] == 'add1':
            p.add_defined_for(op[1])
        elif op[0] == 'addl':
            p.add_defined_for(list(op[1]))
        elif op[0] == 'details':
            obj = mk_obj(op[1], op[2])
            det = obs_det(obj)
            p.set_pool_details(obj)
        return True, det
    except Exception as e:
        return err(e), det


MARK = '<<marker>>'


def index_snapshot(ps):
    if ps.pools_by_delegation is None:
        return None
    return [[k, [p.pool_id for p in v]] for k, v in ps.pools_by_delegation.items()]


def judge_generated(ty, P, g, regs):
    """the regrouping clause for a registry P (canonical pools), its generated family g and the read-backs regs"""
    exp = family_expectation(ty, P)
    if exp in ('conflict', 'mismatch', 'reserved'):
        if not (is_err(g) and g['err'] == 'DelegationException'):
            return 'regroup %s not rejected' % exp
        return None
    if is_err(g):
        return 'generate refused a well-formed family: ' + g['err']
    expg = expected_gmap(ty, P)
    gotg = {n: {d[1]: d for d in ds[1]} for n, ds in g[0]}
    if any(len(ds[1]) != len(gotg[n]) for n, ds in g[0]):
        return 'duplicate delegation ids on a node'
    if gotg != expg:
        return 'per-node delegations differ from one definition on the defining node + one reference per node of for_'
    for r in regs:
        if is_err(r):
            return 'reading the generated delegations back raised ' + r['err']
        if r[0] != P:
            return 'pools -> per-node delegations -> pools is not the identity: %r vs %r' % (r[0], P)
    return None


class Hist(Stream):
    name = 'hist'
    header = HEADER.replace('Model.Pools12.', 'Model.Pools12 Model.Pools12H.')
    case_type = '(dtype * list hop) * val'
    check_fn = 'check_hist'
    rule = ('histories of 6..16 operations on ONE Pools object over shared Pool objects: Pool(...), setters on any object '
            '(re-delegation with set_delegation_id, defined_on / defined_for edits, details), add_pool (incl. replacing a pool '
            'under the same pool id), incorporate_delegation into the object itself, the read-only queries (get_node_ids, '
            'get_delegation_ids, get_pools_by_delegation_id, strict get_pool_by_id, validate_pools, get_type, Pool getters; returned sets '
            'are then modified by the harness), get_pool_by_id (creating), build_index_by_delegation_id (repeatedly), generate_delegations_by_node_id (also with a '
            'stale index), regroup (generate + incorporate into a fresh Pools, two node orders); non-trivial = the index was '
            'built at least twice with an edit in between; distinct by case value')

    def gen(self, rng, tier):
        self.shard = 130 if tier == 'quick' else 400
        n = 220 if tier == 'quick' else 3000
        out = []
        for _ in range(n):
            ty = rng.choice([CAP, LAB])
            ops, nobj, registered = [], 0, []
            pids = rng.sample(PNAMES[:4], rng.choice([1, 2, 2, 3]))
            for pid in pids:
                ops.append(['new', gen_pool_spec(rng, ty, pid, rng.choice(IDS[:3]), wf=rng.random() < 0.9)])
                ops.append(['add', nobj])
                registered.append(nobj)
                nobj += 1
            ops.append(['index'])
            if rng.random() < 0.5:
                ops.append(rng.choice([['generate'], ['regroup']]))
            for _ in range(rng.choice([1, 1, 2, 3])):
                r = rng.randrange(8)
                k = rng.choice(registered)
                if r <= 1:      # move an indexed pool to another delegation id
                    ops.append(['pool', k, ['deleg', rng.choice(IDS[:4])]])
                elif r == 2:    # replace a pool by a new object under the same pool id
                    ops.append(['new', gen_pool_spec(rng, ty, rng.choice(pids), rng.choice(IDS[:3]), wf=rng.random() < 0.9)])
                    ops.append(['add', nobj])
                    registered.append(nobj)
                    nobj += 1
                elif r == 3:    # a further pool
                    pid = rng.choice(PNAMES[:5])
                    ops.append(['new', gen_pool_spec(rng, ty, pid, rng.choice(IDS[:3]), wf=True)])
                    ops.append(['add', nobj])
                    registered.append(nobj)
                    if pid not in pids:
                        pids.append(pid)
                    nobj += 1
                elif r == 4:
                    ops.append(['pool', k, rng.choice([['add1', rng.choice(NODES)], ['on', rng.choice(NODES)],
                                                       ['setfor', rng.sample(NODES, 2)]])])
                elif r == 5:
                    ops.append(['pool', k, ['details', ty, gen_details(rng, ty)]])
                elif r == 6 and rng.random() < 0.6:     # a second definition of an existing pool under another delegation id
                    ops.append(['inc', rng.choice(NODES), ty,
                                [{'type': ty, 'id': rng.choice(['d3', 'primary', 'other-del']), 'fmt': 'def', 'pool': rng.choice(pids),
                                  'details': [ty, gen_details(rng, ty)]}]])
                    ops.append(['q', 'getstrict', ops[-1][3][0]['pool']])
                elif r == 6:                            # add the same object again (no change)
                    ops.append(['add', k])
                else:           # incorporate_delegation into this very object: references / definitions from a node
                    dty = ty if rng.random() < 0.9 else (LAB if ty == CAP else CAP)
                    sps = []
                    for i in rng.sample(IDS[:4], rng.choice([1, 2])):
                        fmt = rng.choice(['ref', 'ref', 'def', 'single'])
                        pool = None if fmt == 'single' else rng.choice(pids + ['fresh_pool'])
                        sps.append({'type': dty, 'id': i, 'fmt': fmt, 'pool': pool,
                                    'details': None if fmt == 'ref' else [dty, gen_details(rng, dty)]})
                    ops.append(['inc', rng.choice(NODES), dty, sps])
                if rng.random() < 0.15:
                    ops.append(rng.choice([['generate'], ['regroup']]))      # with a stale index
                if rng.random() < 0.3:
                    ops.append(self.gen_query(rng, pids, nobj))
            ops.append(['index'])
            for _ in range(rng.choice([0, 1, 1, 2, 3])):                     # read-only queries between index and generate
                ops.append(self.gen_query(rng, pids, nobj))
            ops.append(['generate'])
            if rng.random() < 0.3:
                ops.append(self.gen_query(rng, pids, nobj))
            ops.append(['regroup'])
            out.append({'ty': ty, 'ops': ops})
        return out

    def gen_query(self, rng, pids, nobj):
        r = rng.randrange(10)
        if r < 4:
            return ['q', 'nodeids', rng.choice(IDS[:4])]
        if r == 4:
            return ['q', 'delegids', None]
        if r == 5:
            return ['q', 'poolsby', rng.choice(IDS[:4])]
        if r == 6:
            return ['q', 'getstrict', rng.choice(pids + ['nosuchpool'])]
        if r == 7:
            return ['q', rng.choice(['validate', 'type']), None]
        if r == 8:
            return ['q', 'poolget', rng.randrange(nobj)]
        return ['getpool', rng.choice(pids + ['autopool'])]

    def corpus(self):
        lv = lambda v: [['details', LAB, [['vlan_range', v]]]]
        p1 = {'ptype': LAB, 'pid': 'pool1', 'did': 'del1', 'on': 'node-1', 'for': ['node-2', 'node-3'], 'ops': lv('1-100')}
        p2 = {'ptype': LAB, 'pid': 'pool2', 'did': 'del2', 'on': 'node-2', 'for': ['node-1'], 'ops': lv('101-200')}
        p2b = {'ptype': LAB, 'pid': 'pool2', 'did': 'del2', 'on': 'node-3', 'for': ['node-4'], 'ops': lv('7-8')}
        return [
            # re-delegate an indexed pool, re-index
            {'ty': LAB, 'ops': [['new', p1], ['new', p2], ['add', 0], ['add', 1], ['index'],
                                ['pool', 0, ['deleg', 'del9']], ['index'], ['generate'], ['regroup']]},
            # replace an indexed pool by a new object under the same pool id, re-index
            {'ty': LAB, 'ops': [['new', p1], ['new', p2], ['add', 0], ['add', 1], ['index'],
                                ['new', p2b], ['add', 2], ['index'], ['generate'], ['regroup']]},
            # two pools under one delegation id, the node query between index and generate
            {'ty': LAB, 'ops': [['new', dict(p1, did='del1')], ['new', dict(p2, did='del1', on='node-4', **{'for': ['node-5']})],
                                ['add', 0], ['add', 1], ['index'], ['q', 'nodeids', 'del1'], ['q', 'delegids', None],
                                ['generate'], ['regroup']]},
            # a refused second definition of pool1 under another delegation id, then read, re-index, generate, regroup
            {'ty': LAB, 'ops': [['new', p1], ['add', 0], ['index'],
                                ['inc', 'node-5', LAB, [{'type': LAB, 'id': 'other-del', 'fmt': 'def', 'pool': 'pool1',
                                                         'details': [LAB, [['vlan_range', '5-6']]]}]],
                                ['q', 'getstrict', 'pool1'], ['index'], ['generate'], ['regroup']]},
        ] + [c for c in load_corpus('hist')]

    def observe(self, case):
        D, CL = lib()
        ty = case['ty']
        ps = D.Pools(atype=T(ty))
        objs, outs, dets, snaps = [], [], [], []
        handles, heap_n = [], 0          # position of the case's k-th Pool object in the model's heap (pools that
        for op in case['ops']:           # incorporate_delegation creates on its own take positions too)
            det, snap = None, None
            if op[0] == 'new':
                p, o, det = build_pool(op[1])
                objs.append(p)
                handles.append(heap_n)
                heap_n += 1
            elif op[0] == 'pool':
                o, det = apply_pool_op(objs[op[1]], op[2])
                det = [det]
            elif op[0] == 'add':
                try:
                    ps.add_pool(pool=objs[op[1]])
                    o = True
                except Exception as e:
                    o = err(e)
            elif op[0] == 'inc':
                ds = D.Delegations(atype=T(op[2]))
                for sp in op[3]:
                    d = D.Delegation(atype=T(sp['type']), delegation_id=sp['id'], aformat=F(sp['fmt']), pool_id=sp['pool'])
                    if sp['details'] is not None:
                        d.set_details(mk_obj(sp['details'][0], sp['details'][1]))
                    ds.add_delegations(d)
                det = obs_delegations(ds)[1]
                before = len(ps.pool_by_id)
                snap = {'before': obs_pools(ps)}
                try:
                    ps.incorporate_delegation(node_id=op[1], deleg=ds)
                    o = True
                except Exception as e:
                    o = err(e)
                snap['after'] = obs_pools(ps)
                heap_n += len(ps.pool_by_id) - before
            elif op[0] == 'getpool':
                before = len(ps.pool_by_id)
                o = obs_pool(ps.get_pool_by_id(pool_id=op[1]))
                heap_n += len(ps.pool_by_id) - before
            elif op[0] == 'q':
                snap = {'before': [obs_pools(ps), index_snapshot(ps)]}
                try:
                    if op[1] == 'nodeids':
                        r = ps.get_node_ids(op[2])
                        o = sorted(r)
                        r.add(MARK)                    # a handed-out container must not be the object's own
                    elif op[1] == 'delegids':
                        r = ps.get_delegation_ids()
                        o = sorted(r)
                        r.add(MARK)
                    elif op[1] == 'poolsby':
                        r = ps.get_pools_by_delegation_id(op[2])
                        o = None if r is None else [p.pool_id for p in r]
                    elif op[1] == 'getstrict':
                        r = ps.get_pool_by_id(pool_id=op[2], strict=True)
                        o = None if r is None else obs_pool(r)
                    elif op[1] == 'validate':
                        ps.validate_pools()
                        o = True
                    elif op[1] == 'type':
                        o = ps.get_type().value
                    else:
                        p = objs[op[2]]
                        det = handles[op[2]]
                        o = [p.get_pool_type().value, p.get_pool_id(), p.get_delegation_id(), p.get_defined_on(),
                             sorted(p.get_defined_for()), obs_det(p.get_pool_details())]
                        p.is_defined_on('node-0'), p.is_defined_for('node-0')
                except Exception as e:
                    o = err(e)
                if op[1] == 'poolget':
                    det = handles[op[2]]
                snap['after'] = [obs_pools(ps), index_snapshot(ps)]
            elif op[0] == 'index':
                snap = obs_pools(ps)
                try:
                    ps.build_index_by_delegation_id()
                    o = [[[k, [p.pool_id for p in v]] for k, v in ps.pools_by_delegation.items()]]
                except Exception as e:
                    o = err(e)
            else:
                snap = {'P': obs_pools(ps), 'regs': []}
                try:
                    g = ps.generate_delegations_by_node_id()
                    snap['g'] = [obs_gmap(g)]
                except Exception as e:
                    g = None
                    snap['g'] = err(e)
                if op[0] == 'generate':
                    o = snap['g']
                elif g is None:
                    o = snap['g']
                else:
                    for order in (list(g.items()), sorted(g.items(), reverse=True)):
                        ps1 = D.Pools(atype=T(ty))
                        try:
                            for n, d in order:
                                ps1.incorporate_delegation(node_id=n, deleg=d)
                            snap['regs'].append([obs_pools(ps1)])
                        except Exception as e:
                            snap['regs'].append(err(e))
                    o = snap['regs'][0]
            outs.append(o)
            dets.append(det)
            snaps.append(snap)
        return {'outs': outs, 'final': obs_pools(ps), 'dets': dets, 'snaps': snaps, 'handles': handles}

    def to_coq(self, case, o):
        terms = []
        for op, det in zip(case['ops'], o['dets']):
            if op[0] == 'pool':
                terms.append('(HPool %s %s)' % (cnat(o['handles'][op[1]]), c_pool_op(op[2], det[0])))
            elif op[0] == 'add':
                terms.append('(HAdd %s)' % cnat(o['handles'][op[1]]))
            else:
                terms.append(c_hop(op, det))
        return '((%s, %s), %s)' % (c_ty(case['ty']), clist(terms), py_val([o['outs'], o['final']]))

    def oracle(self, case, o):
        ty = case['ty']
        fresh = False          # the index was built from the registry as it is now
        for op, out, snap in zip(case['ops'], o['outs'], o['snaps']):
            if op[0] == 'inc' and is_err(out) and sum(1 for sp in op[3] if sp['fmt'] != 'single') == 1:
                # the one delegation of the call was refused: whatever it left behind (an auto-created empty pool) is
                # residue of the rejected input, but every pool that EXISTED before must be exactly as it was
                after = {p[1]: p for p in snap['after']}
                for p in snap['before']:
                    if after.get(p[1]) != p:
                        return ('a refused incorporate_delegation (%s) changed the existing pool %r: %r -> %r'
                                % (out['err'], p[1], p, after.get(p[1])))
            if op[0] in ('pool', 'add', 'inc', 'getpool'):
                fresh = False
            elif op[0] == 'q':
                if snap['before'] != snap['after']:
                    return ('the read-only query %s modified the pools or handed out a live reference: %r -> %r'
                            % (op[1], snap['before'], snap['after']))
                if fresh and op[1] == 'nodeids' and not is_err(out):
                    want = sorted({n for p in snap['before'][0] if p[2] == op[2] for n in p[4]})
                    if out != want:
                        return 'get_node_ids(%r) = %r, the pools say %r' % (op[2], out, want)
            elif op[0] == 'index':
                P = snap
                if family_expectation(ty, P) == 'invalid':
                    if not (is_err(out) and out['err'] == 'PoolException'):
                        return 'an incomplete pool was indexed'
                    fresh = False
                    continue
                if is_err(out):
                    return 'build_index refused complete pools: ' + out['err']
                got = sorted((k, pid) for k, pids in out[0] for pid in pids)
                if got != sorted((p[2], p[1]) for p in P):
                    return ('after build_index the by-delegation index %r is not the index of the current registry %r '
                            '(every pool once, under its own delegation id)' % (got, sorted((p[2], p[1]) for p in P)))
                fresh = True
            elif op[0] in ('generate', 'regroup') and fresh:
                why = judge_generated(ty, snap['P'], snap['g'], snap['regs'])
                if why:
                    return why
        return None

    def key(self, case, o):
        idx = [i for i, op in enumerate(case['ops']) if op[0] == 'index']
        if len(idx) >= 2 and any(op[0] in ('pool', 'add', 'inc', 'getpool', 'q') for op in case['ops'][idx[0]:idx[-1]]):
            return stable_hash(case)
        return None

    def histogram(self, cases, obs):
        h = {'index_calls': 0, 'index_refused': 0, 'redelegations': 0, 'replacements': 0, 'stale_generate': 0,
             'generate_refused': 0, 'incorporate_into_self': 0, 'queries': 0, 'ops': 0}
        for c, o in zip(cases, obs):
            seen_pids, fresh = {}, False
            for op, out in zip(c['ops'], o['outs']):
                h['ops'] += 1
                if op[0] == 'index':
                    h['index_calls'] += 1
                    h['index_refused'] += is_err(out)
                    fresh = not is_err(out)
                elif op[0] == 'pool':
                    h['redelegations'] += op[2][0] == 'deleg'
                    fresh = False
                elif op[0] in ('add', 'inc', 'getpool'):
                    h['incorporate_into_self'] += op[0] == 'inc'
                    fresh = False
                elif op[0] == 'q':
                    h['queries'] += 1
                elif op[0] in ('generate', 'regroup'):
                    h['stale_generate'] += not fresh
                    h['generate_refused'] += is_err(out)
            news = [op[1]['pid'] for op in c['ops'] if op[0] == 'new']
            h['replacements'] += len(news) - len(set(news))
        return h

    def describe(self, case, o):
        return {'case': case, 'impl': {'outs': o['outs'], 'final': o['final']}}

    def shrink(self, case, failing):
        # removing a 'new' would shift the object numbers: only remove the other operations, then trim defined_for
        case = copy.deepcopy(case)
        changed = True
        while changed:
            changed = False
            for i, op in enumerate(case['ops']):
                if op[0] == 'new':
                    continue
                cand = dict(case, ops=case['ops'][:i] + case['ops'][i + 1:])
                try:
                    bad = failing(cand)
                except Exception:
                    bad = False
                if bad:
                    case, changed = cand, True
                    break
        return case


# ------------------------------------------------------------------------------------------------
# stream dhist: ONE Delegations container, multi-step histories
# ------------------------------------------------------------------------------------------------

def will_construct(sp):
    return sp['fmt'] == 'single' or (sp['pool'] is not None and not (sp['fmt'] == 'def' and sp['pool'] == '_'))


class DHist(Stream):
    name = 'dhist'
    header = HEADER.replace('Model.Pools12.', 'Model.Pools12 Model.Deleg12H.')
    case_type = '(verdicts * dtype * list dop) * val'
    check_fn = 'check_dhist'
    rule = ('histories of 6..20 operations on ONE Delegations container over shared Delegation objects: Delegation(...), '
            'set_details on any object (also after it was added), add_delegations with 1..4 arguments, remove_by_id, the '
            'queries get_by_delegation_id / get_delegation_ids / get_delegations_as_list / get_sole_delegation / '
            'return_delegations_for_id / get_details_as_dict / the per-field getters of a Delegation (returned containers are then modified by the harness), to_json at '
            'any point and repeatedly, from_json of any earlier text; non-trivial = to_json was called at least twice with a '
            'remove / add / set_details in between; distinct by case value')

    def gen(self, rng, tier):
        self.shard = 130 if tier == 'quick' else 400
        n = 220 if tier == 'quick' else 4000
        out = []
        for _ in range(n):
            ty = rng.choice([CAP, LAB])
            ops, nobj, nenc, ids = [], 0, 0, []
            for i in rng.sample(IDS[:6], rng.randrange(2, 6)):
                fmt = rng.choice(['single', 'def', 'ref'])
                sty = ty if rng.random() < 0.93 else (LAB if ty == CAP else CAP)
                pool = None if fmt == 'single' else rng.choice(PNAMES[:5] + (['_'] if rng.random() < 0.1 else []))
                details = None if (fmt == 'ref' or rng.random() < 0.08) else [sty, gen_details(rng, sty, bad=0.05)]
                sp = {'type': sty, 'id': i, 'fmt': fmt, 'pool': pool, 'details': details}
                ops.append(['new', sp])
                if will_construct(sp):
                    ids.append(i)
                    nobj += 1
            if nobj == 0:
                continue
            pending = list(range(nobj))
            while pending:
                k = rng.choice([1, 1, 2, 3, 4])
                ops.append(['add', pending[:k]])
                pending = pending[k:]
                if rng.random() < 0.3:
                    ops.append(['encode'])
                    nenc += 1
            for _ in range(rng.randrange(3, 10)):
                r = rng.randrange(14)
                if r < 3:
                    ops.append(['encode'])
                    nenc += 1
                elif r < 5:
                    ops.append(['remove', rng.choice(ids + ['nosuchid'])])
                elif r == 5:
                    ops.append(['set', rng.randrange(nobj), ty, gen_details(rng, ty)])
                elif r == 6:
                    ops.append(['add', [rng.randrange(nobj) for _ in range(rng.choice([1, 2]))]])      # re-add (maybe removed)
                elif r == 7:
                    ops.append(['get', rng.choice(ids + ['nosuchid'])])
                elif r == 8:
                    ops.append(['ids'])
                elif r == 9:
                    ops.append(['list'])
                elif r == 10:
                    ops.append(['sole'])
                elif r == 11:
                    ops.append(['for', rng.choice(ids + ['nosuchid'])])
                elif r == 12:
                    ops.append(rng.choice([['dict', rng.randrange(nobj)], ['fields', rng.randrange(nobj)]]))
                elif nenc:
                    ops.append(['decode', rng.randrange(nenc)])
            ops.append(['encode'])
            nenc += 1
            if rng.random() < 0.5:
                ops.append(['decode', rng.randrange(nenc)])
            out.append({'ty': ty, 'ops': ops})
        return out

    def corpus(self):
        c1 = {'type': CAP, 'id': 'd1', 'fmt': 'single', 'pool': None, 'details': [CAP, [['cpu', 1]]]}
        c2 = {'type': CAP, 'id': 'd2', 'fmt': 'def', 'pool': 'p1', 'details': [CAP, [['ram', 8]]]}
        c3 = {'type': CAP, 'id': 'd3', 'fmt': 'ref', 'pool': 'p1', 'details': None}
        return [
            # the unmerge flow: encode, remove_by_id, encode again
            {'ty': CAP, 'ops': [['new', c1], ['new', c2], ['new', c3], ['add', [0, 1, 2]], ['encode'], ['remove', 'd1'],
                                ['encode'], ['decode', 0], ['decode', 1]]},
            # details changed through the object after it was added and encoded
            {'ty': CAP, 'ops': [['new', c1], ['new', c2], ['add', [0, 1]], ['encode'], ['set', 1, CAP, [['ram', 16]]],
                                ['get', 'd2'], ['ids'], ['list'], ['dict', 1], ['for', 'd2'], ['encode'], ['sole']]},
        ] + [c for c in load_corpus('dhist')]

    def observe(self, case):
        D, CL = lib()
        ty = case['ty']
        ds = D.Delegations(atype=T(ty))
        objs, texts, outs, snaps, redecs = [], [], [], [], []
        for op in case['ops']:
            redec = None
            k = op[0]
            if k == 'new':
                sp = op[1]
                try:
                    d = D.Delegation(atype=T(sp['type']), delegation_id=sp['id'], aformat=F(sp['fmt']), pool_id=sp['pool'])
                except Exception as e:
                    o = [err(e)]
                else:
                    o = [True]
                    if sp['details'] is not None:
                        try:
                            obj = mk_obj(sp['details'][0], sp['details'][1])
                        except Exception as e:
                            o.append(err(e))
                        else:
                            o.append(True)
                            try:
                                d.set_details(obj)
                                o.append(True)
                            except Exception as e:
                                o.append(err(e))
                    objs.append(d)
            elif k == 'set':
                try:
                    obj = mk_obj(op[2], op[3])
                except Exception as e:
                    o = [err(e)]
                else:
                    try:
                        objs[op[1]].set_details(obj)
                        o = [True, True]
                    except Exception as e:
                        o = [True, err(e)]
            elif k == 'add':
                try:
                    ds.add_delegations(*[objs[i] for i in op[1]])
                    r = True
                except Exception as e:
                    r = err(e)
                o = [r, [v.delegation_id for v in ds.delegations.values()]]
            elif k == 'remove':
                ds.remove_by_id(op[1])
                o = True
            elif k == 'get':
                r = ds.get_by_delegation_id(op[1])
                o = None if r is None else obs_deleg(r)
            elif k == 'ids':
                r = ds.get_delegation_ids()
                o = sorted(r)
                r.add(MARK)
            elif k == 'list':
                r = ds.get_delegations_as_list()
                o = [obs_deleg(x) for x in r]
                r.append(MARK)
            elif k == 'sole':
                try:
                    i, v = ds.get_sole_delegation()
                    o = [i, obs_deleg(v)]
                except Exception as e:
                    o = err(e)
            elif k == 'for':
                r = ds.return_delegations_for_id(op[1])
                o = None if r is None else obs_delegations(r)
                if r is not None:
                    r.delegations.clear()
            elif k == 'fields':
                d = objs[op[1]]
                o = [d.get_delegation_type().value, d.get_delegation_id(), d.get_format().value, d.get_pool_name(),
                     obs_det(d.get_details())]
            elif k == 'dict':
                r = objs[op[1]].get_details_as_dict()
                o = [obs_ddict(r)]
                if r is not None:
                    r[MARK] = 1
            elif k == 'encode':
                try:
                    text = ds.to_json()
                    texts.append(text)
                    o = [obs_jdoc(text)]
                    try:
                        redec = [obs_delegations(D.Delegations.from_json(json_str=text, atype=T(ty)))]
                    except Exception as e:
                        redec = err(e)
                except Exception as e:
                    texts.append(None)
                    o = err(e)
            else:   # decode j
                if texts[op[1]] is None:
                    o = None
                else:
                    try:
                        o = [obs_delegations(D.Delegations.from_json(json_str=texts[op[1]], atype=T(ty)))]
                    except Exception as e:
                        o = err(e)
            outs.append(o)
            snaps.append(obs_delegations(ds))
            redecs.append(redec)
        dds = [op[1]['details'][1] for op in case['ops'] if op[0] == 'new' and op[1]['details'] and op[1]['details'][0] == LAB]
        dds += [op[3] for op in case['ops'] if op[0] == 'set' and op[2] == LAB]
        return {'outs': outs, 'final': obs_delegations(ds), 'snaps': snaps, 'redecs': redecs, 'verdicts': verdicts_for(dds)}

    def to_coq(self, case, o):
        terms = []
        for op in case['ops']:
            k = op[0]
            if k == 'new':
                terms.append('(DNew %s)' % c_spec(op[1]))
            elif k == 'set':
                terms.append('(DSet %s %s %s)' % (cnat(op[1]), c_ty(op[2]), c_ddict(op[3])))
            elif k == 'add':
                terms.append('(DAdd %s)' % clist([cnat(i) for i in op[1]]))
            elif k in ('remove', 'get', 'for'):
                terms.append('(%s %s)' % ({'remove': 'DRemove', 'get': 'DGet', 'for': 'DFor'}[k], cstr(op[1])))
            elif k in ('dict', 'decode', 'fields'):
                terms.append('(%s %s)' % ({'dict': 'DDict', 'decode': 'DDecode', 'fields': 'DFields'}[k], cnat(op[1])))
            else:
                terms.append({'ids': 'DIds', 'list': 'DAsList', 'sole': 'DSole', 'encode': 'DEncode'}[k])
        return '((%s, %s, %s), %s)' % (c_verdicts(o['verdicts']), c_ty(case['ty']), clist(terms),
                                       py_val([o['outs'], o['final']]))

    def oracle(self, case, o):
        ty = case['ty']
        prev = [TY_CODE[ty], []]
        at_encode = []
        for op, out, snap, redec in zip(case['ops'], o['outs'], o['snaps'], o['redecs']):
            k = op[0]
            ids = [d[1] for d in snap[1]]
            if len(set(ids)) != len(ids):
                return 'the container holds a delegation id twice: %r' % ids
            if k in ('new', 'get', 'ids', 'list', 'sole', 'for', 'dict', 'fields', 'encode', 'decode') and snap != prev:
                return 'the read-only operation %s changed the container (or handed out a live reference): %r -> %r' % (k, prev, snap)
            if k == 'remove':
                if snap[1] != [d for d in prev[1] if d[1] != op[1]]:
                    return 'remove_by_id(%r): %r -> %r' % (op[1], prev, snap)
            elif k == 'add':
                pids = [d[1] for d in prev[1]]
                if not is_err(out[0]):
                    if ids[:len(pids)] != pids or len(ids) != len(pids) + len(op[1]):
                        return 'add_delegations accepted %d arguments, the container went %r -> %r' % (len(op[1]), pids, ids)
                elif ids[:len(pids)] != pids:
                    return 'a refused add_delegations call changed what the container held'
            elif k == 'get':
                want = [d for d in snap[1] if d[1] == op[1]]
                if out != (want[0] if want else None):
                    return 'get_by_delegation_id(%r) = %r, the container holds %r' % (op[1], out, want)
            elif k == 'ids':
                if out != sorted(ids):
                    return 'get_delegation_ids() = %r, the container holds %r' % (out, ids)
            elif k == 'list':
                if out != snap[1]:
                    return 'get_delegations_as_list() differs from the content'
            elif k == 'sole':
                if (len(ids) == 1) != (not is_err(out)) or (not is_err(out) and out != [ids[0], snap[1][0]]):
                    return 'get_sole_delegation() = %r, the container holds %r' % (out, ids)
            elif k == 'for':
                want = [d for d in snap[1] if d[1] == op[1]]
                if out != ([snap[0], want] if want else None):
                    return 'return_delegations_for_id(%r) = %r' % (op[1], out)
            elif k == 'encode':
                encodable = all(d[2] == 2 or nonempty_det(d[4]) for d in snap[1])
                if is_err(out):
                    at_encode.append(None)
                    if encodable:
                        return 'to_json raised %s on delegations that all carry details' % out['err']
                else:
                    at_encode.append(snap)
                    if not encodable:
                        return 'to_json encoded a delegation without details'
                    if is_err(redec) or redec[0] != snap:
                        return ('to_json does not encode the CURRENT content: its text decodes to %r while the container holds %r'
                                % (redec, snap))
            elif k == 'decode':
                want = at_encode[op[1]]
                if want is not None and (is_err(out) or out[0] != want):
                    return 'from_json of the text of to_json call #%d gives %r, the container held %r then' % (op[1], out, want)
            prev = snap
        return None

    def key(self, case, o):
        enc = [i for i, op in enumerate(case['ops']) if op[0] == 'encode']
        if len(enc) >= 2 and any(op[0] in ('remove', 'add', 'set') for op in case['ops'][enc[0]:enc[-1]]):
            return stable_hash(case)
        return None

    def histogram(self, cases, obs):
        h = {'ops': 0, 'encode': 0, 'encode_refused': 0, 'remove': 0, 'add_calls': 0, 'add_refused': 0, 'set_after_add': 0,
             'queries': 0, 'decode_earlier': 0, 'reencode_after_change': 0}
        for c, o in zip(cases, obs):
            changed_since_enc, seen_enc, added = False, False, False
            for op, out in zip(c['ops'], o['outs']):
                h['ops'] += 1
                k = op[0]
                if k == 'encode':
                    h['encode'] += 1
                    h['encode_refused'] += is_err(out)
                    h['reencode_after_change'] += seen_enc and changed_since_enc
                    seen_enc, changed_since_enc = True, False
                elif k == 'remove':
                    h['remove'] += 1
                    changed_since_enc = True
                elif k == 'add':
                    h['add_calls'] += 1
                    h['add_refused'] += is_err(out[0])
                    changed_since_enc = added = True
                elif k == 'set':
                    h['set_after_add'] += added
                    changed_since_enc = True
                elif k == 'decode':
                    h['decode_earlier'] += 1
                elif k != 'new':
                    h['queries'] += 1
        return h

    def describe(self, case, o):
        return {'case': case, 'impl': {'outs': o['outs'], 'final': o['final']}}

    def shrink(self, case, failing):
        # removing a 'new' or an 'encode' would shift object / text numbers: only remove the other operations
        case = copy.deepcopy(case)
        changed = True
        while changed:
            changed = False
            for i, op in enumerate(case['ops']):
                if op[0] in ('new', 'encode'):
                    continue
                cand = dict(case, ops=case['ops'][:i] + case['ops'][i + 1:])
                try:
                    bad = failing(cand)
                except Exception:
                    bad = False
                if bad:
                    case, changed = cand, True
                    break
        return case


# ------------------------------------------------------------------------------------------------
# stream text: FOREIGN texts (decode side, text level)
# ------------------------------------------------------------------------------------------------

def walk_label_pairs(v):
    """(field, value) pairs under any "labels" key of a parsed document, for the validator verdicts"""
    out = []
    if isinstance(v, dict):
        for inner in v.values():
            if isinstance(inner, dict) and isinstance(inner.get(W_LABS), dict):
                out.append([[k, x] for k, x in inner[W_LABS].items()
                            if isinstance(x, str) or (isinstance(x, list) and all(isinstance(i, str) for i in x))])
    return out


def render(v, rng, ws):
    """JSON text of a python value built from (key, value) PAIR LISTS for objects (so that duplicate keys can be
    written), with optional random whitespace"""
    sp = (lambda: rng.choice(['', ' ', '  ', '\n', '\t'])) if ws else (lambda: '')
    if isinstance(v, tuple) and v[0] == 'obj':
        return '{' + sp() + (',' + sp()).join(json.dumps(k) + sp() + ':' + sp() + render(x, rng, ws) for k, x in v[1]) + sp() + '}'
    if isinstance(v, tuple) and v[0] == 'raw':
        return v[1]
    if isinstance(v, list):
        return '[' + sp() + (',' + sp()).join(render(x, rng, ws) for x in v) + sp() + ']'
    return json.dumps(v)


FOREIGN_VALUES = [None, ('raw', '1.5'), ('raw', '-0.0'), ('raw', '1e3'), ('raw', 'NaN'), [1, 'a'], [['x']], ('obj', [['a', 1]]),
                  ('obj', []), 7, -3, 'text', [], ['a', 'b']]


class Text(Stream):
    name = 'text'
    header = HEADER.replace('Model.Pools12.', 'Model.Pools12 Model.Deleg12T.')
    case_type = '(verdicts * dtype * option str) * val'
    check_fn = 'check_text'
    rule = ('FOREIGN texts handed to Delegations.from_json: None / "" / "None" / "{}", texts the encoder never writes: random '
            'whitespace, permuted keys, duplicate delegation ids and duplicate inner keys, unknown keys, value kinds swapped at '
            'every position (top level, entry, pool name, details, detail values: null, floats, nested lists / objects, ints, '
            'strings), truncated / ill-formed JSON; compared: accept / reject class, decoded value, re-encoded TEXT byte for '
            'byte, decode of the re-encoded text; non-trivial = accepted with a delegation or rejected after parsing; '
            'distinct by text')

    def gen(self, rng, tier):
        self.shard = 130 if tier == 'quick' else 400
        n = 300 if tier == 'quick' else 6000
        out = [{'ty': t, 'text': x} for t in (CAP, LAB) for x in (None, '', 'None', '{}', ' {} ', 'null', '[]', '3', '"x"', '{"d1": 3}',
                                                                    '{"d1": null}', '{"d1": []}', '{', '{"d1": {"pool": "p"}} x')]
        for _ in range(n):
            ty = rng.choice([CAP, LAB])
            doc = gen_doc(rng, ty, rng.choice([0.0, 0.0, 0.2, 0.5]))
            entries = []
            for k, inner in doc:
                pairs = []
                for kk, vv in inner:
                    if kk in (W_CAPS, W_LABS):
                        pairs.append([kk, ('obj', [[a, b] for a, b in vv])])
                    else:
                        pairs.append([kk, vv])
                entries.append([k, ('obj', pairs)])
            m = rng.randrange(12)
            def pick_entry():
                return rng.choice(entries)[1][1] if entries else None
            if m == 0 and entries:          # duplicate delegation id (last one wins in json.loads)
                e = copy.deepcopy(rng.choice(entries))
                entries.insert(rng.randrange(len(entries) + 1), [e[0], ('obj', [[W_POOL, 'dup']])])
            elif m == 1 and entries:        # duplicate inner key
                pe = pick_entry()
                if pe:
                    k0 = rng.choice(pe)
                    pe.append([k0[0], rng.choice([k0[1], 'other', None])])
            elif m == 2 and entries:        # unknown keys
                pick_entry().insert(0, ['comment', rng.choice(FOREIGN_VALUES)])
                if rng.random() < 0.5:
                    entries.append(['zz_extra', ('obj', [[W_POOL, 'p1'], ['x', 1]])])
            elif m == 3 and entries:        # a detail value of another kind
                pe = pick_entry()
                det = [x for x in pe if x[0] in (W_CAPS, W_LABS)]
                if det and det[0][1][1]:
                    rng.choice(det[0][1][1])[1] = rng.choice(FOREIGN_VALUES)
                elif det:
                    det[0][1][1].append([rng.choice(cap_fields() if ty == CAP else lab_fields()), rng.choice(FOREIGN_VALUES)])
            elif m == 4 and entries:        # details that are not an object
                pe = pick_entry()
                for x in pe:
                    if x[0] in (W_CAPS, W_LABS):
                        x[1] = rng.choice([None, 5, 'caps', [], [1], ('raw', '2.5')])
            elif m == 5 and entries:        # pool name null
                pe = pick_entry()
                for x in pe:
                    if x[0] in (W_POOL, W_POOL_ID):
                        x[1] = None
            elif m == 6 and entries:        # an entry that is not an object
                rng.choice(entries)[1] = rng.choice([None, 3, 'x', [], ['pool'], ('raw', '1.0')])
            elif m == 7:                    # top level of another kind / ill-formed text
                txt = rng.choice(['[{"d1": {"pool": "p"}}]', 'null', '"{}"', '12', 'true', '{"d1": {"pool": "p"}', '{"d1" {"pool": "p"}}',
                                  "{'d1': {'pool': 'p'}}", '{"d1": {"pool": "p"},}', '\ufeff{}', '{"d1": {"pool": "p\\u00e9\\ud83d\\ude00"}}',
                                  '{"d1": {"pool": "a\\u0062c"}}', '{"d\\u0031": {"pool": "p"}}'])
                out.append({'ty': ty, 'text': txt})
                continue
            elif m == 8 and entries:        # permuted keys
                for e in entries:
                    rng.shuffle(e[1][1])
                rng.shuffle(entries)
            out.append({'ty': ty, 'text': render(('obj', entries), rng, ws=rng.random() < 0.5)})
        return out

    def corpus(self):
        return [
            {'ty': CAP, 'text': '{"d1": {"pool_id": "_", "capacities": {"cpu": null, "ram": 1}}}'},
            {'ty': CAP, 'text': '{"d1": {"pool": "p1"}, "d1": {"pool": "p2"}}'},
            {'ty': LAB, 'text': ' { "d1" : { "labels" : { "vlan" : [ "1" , "2" ] } , "pool_id" : "_" } } '},
        ] + [c for c in load_corpus('text')]

    def observe(self, case):
        D, CL = lib()
        ty, text = case['ty'], case['text']
        re_text, redec = None, None
        try:
            ds = D.Delegations.from_json(json_str=text, atype=T(ty))
            dec = [None if ds is None else obs_delegations(ds)]
        except Exception as e:
            dec, ds = err(e), None
        if ds is not None:
            try:
                t2 = ds.to_json()
                re_text = [t2]
                try:
                    d2 = D.Delegations.from_json(json_str=t2, atype=T(ty))
                    redec = [None if d2 is None else obs_delegations(d2)]
                except Exception as e:
                    redec = err(e)
            except Exception as e:
                re_text = err(e)
        parsed, parse_ok = None, False
        if text not in (None, '', 'None'):
            try:
                parsed = json.loads(text)
                parse_ok = True
            except Exception:
                pass
        return {'dec': dec, 'retext': re_text, 'redec': redec, 'parse_ok': parse_ok,
                'verdicts': verdicts_for(walk_label_pairs(parsed))}

    def to_coq(self, case, o):
        obs = [o['dec'], None if (is_err(o['dec']) or o['dec'][0] is None) else [o['retext'], o['redec'] if not is_err(o['retext']) else None]]
        return '((%s, %s, %s), %s)' % (c_verdicts(o['verdicts']), c_ty(case['ty']), copt(case['text'], cstr), py_val(obs))

    def known_signature(self, case, o, why):
        return why or ''

    def oracle(self, case, o):
        """closure of the decode side, restated over the implementation only"""
        text = case['text']
        if text in (None, '', 'None'):
            return None if o['dec'] == [None] else 'from_json(%r) should give no Delegations' % (text,)
        if not o['parse_ok']:
            return None if is_err(o['dec']) else 'from_json accepted a text json.loads rejects'
        if is_err(o['dec']) or o['dec'][0] is None:
            return None
        dec = o['dec'][0]
        ids = [d[1] for d in dec[1]]
        if len(set(ids)) != len(ids):
            return 'the decoded set holds a delegation id twice'
        for d in dec[1]:
            if d[2] == 2 and d[4] is not None:
                return 'a decoded reference carries details'
            if d[4] is not None and d[4][0] != dec[0]:
                return 'decoded details of the other type'
        encodable = all(d[2] == 2 or nonempty_det(d[4]) for d in dec[1])
        if is_err(o['retext']):
            return None if not encodable else 'the decoded set cannot be re-encoded: ' + o['retext']['err']
        if is_err(o['redec']) or o['redec'][0] != dec:
            if any(d[4] is not None and d[4][0] == 1 and any(v is None for v in d[4][1]) for d in dec[1]):
                return ('KF-null-capacity: decode(encode(d)) differs from the decoded d: a null capacity value decodes to a '
                        'None field, which the encoding drops and the next decode reads as 0')
            return 'decode(encode(d)) differs from the decoded d: %r vs %r' % (o['redec'], dec)
        # encode . decode . encode = encode
        D, CL = lib()
        t3 = D.Delegations.from_json(json_str=o['retext'][0], atype=T(case['ty'])).to_json()
        if t3 != o['retext'][0]:
            return 'encode(decode(encode(d))) differs from encode(d)'
        # documented json behaviour (duplicate keys: last wins, whitespace, key order) is classified, not alarmed:
        # decoding the canonical re-dump of what json.loads read gives the same set
        try:
            canon = D.Delegations.from_json(json_str=json.dumps(json.loads(text)), atype=T(case['ty']))
            if obs_delegations(canon) != dec:
                return 'the decoded set depends on more than the JSON value of the text'
        except Exception as e:
            return 'the canonical re-dump of an accepted text is refused: ' + type(e).__name__
        return None

    def key(self, case, o):
        if o['parse_ok'] and (is_err(o['dec']) or (o['dec'][0] is not None and o['dec'][0][1])):
            return stable_hash(case)
        return None

    def histogram(self, cases, obs):
        h = {'no_delegations': 0, 'accepted': 0, 'rejected': {}}
        for c, o in zip(cases, obs):
            if is_err(o['dec']):
                h['rejected'][o['dec']['err']] = h['rejected'].get(o['dec']['err'], 0) + 1
            elif o['dec'][0] is None:
                h['no_delegations'] += 1
            else:
                h['accepted'] += 1
        return h

    def describe(self, case, o):
        return {'case': case, 'impl': {'dec': o['dec'], 'retext': o['retext']}}


# ------------------------------------------------------------------------------------------------
def load_corpus(stream):
    d = os.path.join(VERIF, 'corpus', 'C12')
    out = []
    for p in sorted(glob.glob(os.path.join(d, stream + '_*.json'))):
        with open(p) as f:
            out.append(json.load(f))
    return out


class C12(Check):
    pid = 'C12'
    translators = ['gen_deleg']
    model_targets = ['Model/Deleg12.vo', 'Model/Pools12.vo', 'Model/Pools12H.vo', 'Model/Deleg12H.vo', 'Model/Deleg12T.vo']
    streams = [Ops(), Json(), PoolsS(), Inc(), Annotate(), Hist(), DHist(), Text()]
    trusted_base = [
        'Coq 8.16.1 kernel (coqc), vm_compute for the correspondence evaluation; no native_compute',
        'Print Assumptions of every C12 theorem: Closed under the global context (no axioms)',
        'translator/gen_deleg.py + translator/pyast.py (constants, enum members, Capacities/Labels field lists, to_dict drop rule -> Gen/DelegGen.v), fail-closed',
        'harness/c12.py + harness/common.py (generators, recording of implementation results, cases.v writer, oracles)',
        'modelled not verified: json.dumps/json.loads (the model works on JSON values: a document is what json.loads returns), '
        'dict insertion order, set semantics of Pool.for_ (compared sorted), the Labels validators (a parameter of the model; '
        'the tie instantiates it with the verdicts of the real constructor), the NetworkX node-property store '
        '(one JSON property per node)',
    ]
    assumptions = [
        'capacity fields hold non-negative Python ints (None-valued capacity fields are outside the domain, as in C15)',
        'details dictionaries do not use the keys "forgiving" / "self" (they bind parameters of _set_fields / __init__); since a313e77 any other non-field key, incl. method names, is refused as the model says',
        'label values were accepted by the Labels constructor (validators are deterministic: the same value is accepted again on decoding)',
        'node, pool and delegation ids are str (add_defined_for silently ignores other types)',
        'a document is a JSON VALUE: json.loads has already collapsed a delegation id repeated in the text (last one wins) '
        'before the library sees it',
    ]


    def refuted_witnesses(self):
        D, CL = lib()

        def null_capacity():
            text = '{"d1": {"pool_id": "_", "capacities": {"cpu": null, "ram": 1}}}'
            d = D.Delegations.from_json(json_str=text, atype=T(CAP))
            d2 = D.Delegations.from_json(json_str=d.to_json(), atype=T(CAP))
            a, b = obs_delegations(d), obs_delegations(d2)
            return a != b, {'text': text, 'decoded': a, 'decoded_again': b}

        return [('C12_decode_null_capacity_refuted', null_capacity)]


if __name__ == '__main__':
    sys.exit(main(C12()))

"""C02 - sliver <-> graph / dictionary / JSON conversion preserves every settable field.

Streams (each runs the implementation and lets Coq evaluate the model on the same inputs):
  flat     one sliver of each class with values drawn from the FULL setter vocabulary of the class;
           the implementation's properties dictionary and the sliver rebuilt from it
  deep     sliver trees (node > components > services > interfaces > sub-interfaces, node > services,
           stand-alone services / interfaces / links) through the three routes: deep dictionary,
           JSONSliver, graph on the in-memory backend
  element  set_property / set_properties / get_property / unset on elements of a live ExperimentTopology
The oracle of each stream restates the property over implementation observables only (token of every
field of the original vs the rebuilt sliver; get after set / unset) - it never looks at the Coq model."""
import sys, json, copy, random, traceback
from . import common
from .common import *

KINDS = ['node', 'component', 'service', 'interface', 'link']
KCOQ = {'node': 'KNode', 'component': 'KComponent', 'service': 'KService', 'interface': 'KInterface', 'link': 'KLink'}
STRUCTURAL = ('node_id', 'attached_components_info', 'network_service_info', 'interface_info')
HEADER = ('From Coq Require Import List String NArith.\nImport ListNotations.\n'
          'From FIM Require Import Base.Str Model.Sliver2Kinds Model.Sliver2Map Model.Sliver2Deep '
          'Model.Sliver2Graph Model.Sliver2Check.\n')


# ----------------------------------------------------------------------------------------------
# the implementation, imported lazily (after setup_repo_path)
# ----------------------------------------------------------------------------------------------
class Impl:
    _i = None

    @classmethod
    def get(cls):
        if cls._i is None:
            i = cls()
            from fim.slivers.network_node import NodeSliver, NodeType
            from fim.slivers.attached_components import ComponentSliver, ComponentType, AttachedComponentsInfo
            from fim.slivers.network_service import (NetworkServiceSliver, ServiceType, NetworkServiceInfo, NSLayer,
                                                     MirrorDirection)
            from fim.slivers.interface_info import InterfaceSliver, InterfaceType, InterfaceInfo
            from fim.slivers.network_link import NetworkLinkSliver, LinkType
            from fim.slivers import capacities_labels as cl
            from fim.slivers.delegations import Delegations, Delegation, DelegationType, DelegationFormat
            from fim.slivers.tags import Tags
            from fim.slivers.json_data import MeasurementData, UserData, LayoutData, JSONData
            from fim.slivers.path_info import PathInfo, ERO, Path, PathRepresentationType
            from fim.slivers.gateway import Gateway
            from fim.slivers.maintenance_mode import MaintenanceInfo, MaintenanceEntry, MaintenanceState
            from fim.graph.abc_property_graph import ABCPropertyGraph
            from fim.graph.networkx_property_graph import NetworkXPropertyGraph, NetworkXGraphImporter
            from fim.graph.networkx_property_graph_disjoint import NetworkXPropertyGraphDisjoint, NetworkXGraphImporterDisjoint
            from fim.slivers.json import JSONSliver
            import fim.user as fu
            import ipaddress, enum
            i.__dict__.update(locals())
            i.CLS = {'node': NodeSliver, 'component': ComponentSliver, 'service': NetworkServiceSliver,
                     'interface': InterfaceSliver, 'link': NetworkLinkSliver}
            i.TYPE = {'node': NodeType, 'component': ComponentType, 'service': ServiceType,
                      'interface': InterfaceType, 'link': LinkType}
            i.ENUMS = {e.__name__: e for e in (NodeType, ComponentType, ServiceType, InterfaceType, LinkType, NSLayer,
                                               MirrorDirection)}
            cls._i = i
        return cls._i


def vocabulary(kind):
    """every settable property of the sliver class (the list the library itself derives from the setters)"""
    I = Impl.get()
    return sorted(p for p in I.CLS[kind].list_properties() if p not in STRUCTURAL)


# ----------------------------------------------------------------------------------------------
# value specifications (JSON-able) -> real objects
# ----------------------------------------------------------------------------------------------
def build_value(spec):
    I = Impl.get()
    t = spec[0]
    if t == 'str':
        return spec[1]
    if t == 'bool':
        return spec[1]
    if t == 'enum':
        return I.ENUMS[spec[1]][spec[2]]
    if t == 'caps':
        return I.cl.Capacities(**spec[1])
    if t == 'hints':
        return I.cl.CapacityHints(**spec[1])
    if t == 'labels':
        return I.cl.Labels(**spec[1])
    if t == 'rinfo':
        return I.cl.ReservationInfo(**spec[1])
    if t == 'sinfo':
        return I.cl.StructuralInfo(**spec[1])
    if t == 'loc':
        return I.cl.Location(**spec[1])
    if t == 'flags':
        return I.cl.Flags(**spec[1])
    if t == 'tags':
        return I.Tags(list(spec[1]))
    if t in ('mf', 'ud', 'ld'):          # from a JSON string
        return {'mf': I.MeasurementData, 'ud': I.UserData, 'ld': I.LayoutData}[t](spec[1])
    if t in ('mfo', 'udo', 'ldo'):       # from a Python object (the constructor encodes it)
        return {'mfo': I.MeasurementData, 'udo': I.UserData, 'ldo': I.LayoutData}[t](spec[1])
    if t == 'tuple':
        return tuple(spec[1])
    if t == 'deleg':
        atype = I.DelegationType[spec[1]]
        ds = I.Delegations(atype=atype)
        for did, fmt, pool, det in spec[2]:
            d = I.Delegation(atype=atype, delegation_id=did, aformat=I.DelegationFormat[fmt], pool_id=pool)
            if det is not None:
                d.set_details(I.cl.Capacities(**det) if spec[1] == 'CAPACITY' else I.cl.Labels(**det))
            ds.add_delegations(d)
        return ds
    if t in ('ero', 'pinfo'):
        if t == 'ero':
            o = I.ERO(I.PathRepresentationType[spec[1]], strict=spec[2])
        else:
            o = I.PathInfo(I.PathRepresentationType[spec[1]])
        if spec[1] == 'Graph':
            o.set(spec[3])
        else:
            p = I.Path()
            p.set_symmetric(list(spec[3]))
            o.set(p)
        return o
    if t == 'gw':
        return I.Gateway(None if spec[1] is None else I.cl.Labels(**spec[1]))
    if t == 'maint':
        m = I.MaintenanceInfo()
        for name, (state, dl, end) in spec[1]:
            m.add(name, I.MaintenanceEntry(state=I.MaintenanceState[state], deadline=dl, expected_end=end))
        return m
    raise ValueError(spec)


def tok(x):
    """abstraction of a field value: JSON-able token (see Model/Sliver2Kinds.v fval)"""
    I = Impl.get()
    if x is None:
        return None
    if isinstance(x, bool):
        return ['FBool', x]
    if isinstance(x, str):
        return ['FStr', x]
    if isinstance(x, I.enum.Enum):
        return ['FEnum', type(x).__name__, x.name]
    if isinstance(x, (I.ipaddress.IPv4Address, I.ipaddress.IPv6Address)):
        return ['FIp', str(x)]
    if isinstance(x, I.JSONData):
        return ['FData', type(x).__name__, x.json]
    if isinstance(x, (tuple, list)):
        return ['FJson', json.dumps(x)]
    if isinstance(x, I.MaintenanceInfo) and not x._lock:
        c = x.copy()          # the setter finalizes the object; its token is that of the finalized object
        c.finalize()
        return ['FObj', 'MaintenanceInfo', c.to_json()]
    if hasattr(x, 'to_json'):
        return ['FObj', type(x).__name__, x.to_json()]
    return ['FOther', type(x).__name__, repr(x)]


def mutate_in_place(x):
    """modify a decoded value object in place, as user code may do with an object it was handed
    (the stored text must keep deciding what later reads return). Returns True when something changed."""
    I = Impl.get()
    if isinstance(x, I.Tags):
        x.tags.append('mutated')
        return True
    if not isinstance(x, I.cl.JSONField):
        return False
    for k, v in list(x.__dict__.items()):
        if isinstance(v, bool):
            x.__dict__[k] = not v
            return True
        if isinstance(v, int):
            x.__dict__[k] = v + 97
            return True
        if isinstance(v, str):
            x.__dict__[k] = v + '~'
            return True
        if isinstance(v, float):
            x.__dict__[k] = v + 1.5
            return True
        if isinstance(v, list):
            x.__dict__[k] = v + ['~']
            return True
    for k in x.__dict__:
        x.__dict__[k] = 'mutated'
        return True
    return False


def c_string(s):
    assert all(32 <= ord(c) < 127 for c in s), s
    return '"' + s.replace('"', '""') + '"%string'


def c_fval(t):
    k = t[0]
    if k == 'FBool':
        return '(FBool %s)' % cbool(t[1])
    if k == 'FStr':
        return '(FStr %s)' % cstr(t[1])
    if k == 'FEnum':
        return '(FEnum %s %s)' % (c_string(t[1]), cstr(t[2]))
    if k == 'FIp':
        return '(FIp %s)' % cstr(t[1])
    if k == 'FData':
        return '(FData %s %s)' % (c_string(t[1]), cstr(t[2]))
    if k == 'FJson':
        return '(FJson %s)' % cstr(t[1])
    if k == 'FObj':
        return '(FObj %s %s)' % (c_string(t[1]), copt(t[2], cstr))
    if k == 'FOther':     # a value the model has no token for: an object token of an unknown class
        return '(FObj %s None)' % c_string('?' + ''.join(c for c in t[1] if c.isalnum()))
    raise ValueError(t)


def c_ofval(t):
    return 'None' if t is None else '(Some %s)' % c_fval(t)


def c_attrs(a):
    return clist(['(%s, %s)' % (c_string(k), c_ofval(v)) for k, v in a])


def c_props(d):
    return clist(['(%s, %s)' % (c_string(k), copt(v, cstr)) for k, v in d])


def abs_attrs(sl):
    """the data attributes of a sliver object, in __dict__ order"""
    return [[k, tok(v)] for k, v in sl.__dict__.items() if k not in STRUCTURAL]


def abs_props(d):
    """a flat properties dictionary as the implementation produced it (values are str or None)"""
    out = []
    for k, v in d.items():
        if not (v is None or isinstance(v, str)):
            v = '?' + repr(v)
        out.append([k, v])
    return out


def kind_of(sl):
    I = Impl.get()
    for k, c in I.CLS.items():
        if type(sl) is c:
            return k
    return 'node' if isinstance(sl, I.NodeSliver) else None


def abs_tree(sl):
    I = Impl.get()
    k = kind_of(sl)

    def kids(info, attr):
        if info is None:
            return None
        return [abs_tree(c) for c in getattr(info, attr).values()]
    c = kids(getattr(sl, 'attached_components_info', None), 'devices') if k == 'node' else None
    n = kids(getattr(sl, 'network_service_info', None), 'network_services') if k in ('node', 'component') else None
    i = kids(getattr(sl, 'interface_info', None), 'interfaces') if k in ('service', 'interface') else None
    return {'k': k, 'id': sl.node_id, 'a': abs_attrs(sl), 'c': c, 'n': n, 'i': i}


def c_tree(t):
    def ol(l):
        return 'None' if l is None else '(Some %s)' % clist([c_tree(x) for x in l])
    return '(T %s %s %s %s %s %s)' % (KCOQ[t['k']], copt(t['id'], cstr), c_attrs(t['a']), ol(t['c']), ol(t['n']), ol(t['i']))


def abs_dd(d):
    p, kids = [], []
    for k, v in d.items():
        if isinstance(v, list):
            kids.append([k, [abs_dd(x) for x in v]])
        else:
            p.append([k, v if (v is None or isinstance(v, str)) else '?' + repr(v)])
    return {'p': p, 'kids': kids}


def c_dd(d):
    return '(DD %s %s)' % (c_props(d['p']), clist(['(%s, %s)' % (c_string(k), clist([c_dd(x) for x in l]))
                                                    for k, l in d['kids']]))


# ----------------------------------------------------------------------------------------------
# sliver specifications -> real slivers
# ----------------------------------------------------------------------------------------------
def build_sliver(spec):
    I = Impl.get()
    sl = I.CLS[spec['k']]()
    sl.node_id = spec.get('id')
    for kw, v in spec['props']:
        sl.set_property(kw, build_value(v))
    if spec.get('comps') is not None:
        info = I.AttachedComponentsInfo()
        for c in spec['comps']:
            info.add_device(build_sliver(c))
        sl.attached_components_info = info
    if spec.get('nss') is not None:
        info = I.NetworkServiceInfo()
        for c in spec['nss']:
            info.add_network_service(build_sliver(c))
        sl.network_service_info = info
    if spec.get('ifs') is not None:
        info = I.InterfaceInfo()
        for c in spec['ifs']:
            info.add_interface(build_sliver(c))
        sl.interface_info = info
    return sl


# ----------------------------------------------------------------------------------------------
# generators of value specifications: one per setter keyword
# ----------------------------------------------------------------------------------------------
NAME_CH = 'abcdefghijklmnopqrstuvwxyzABCXYZ0123456789-_.'
TEXT_CH = 'abcxyz XYZ019,;:{}[]"\'\\/=+-_.<>&%é中\U0001f600'


def g_name(rng, lo=2, hi=12):
    return ''.join(rng.choice(NAME_CH[:-3] if i == 0 else NAME_CH) for i in range(rng.randint(lo, hi)))


def g_text(rng, lo=0, hi=14, nocomma=False):
    s = ''.join(rng.choice(TEXT_CH) for _ in range(rng.randint(lo, hi)))
    return s.replace(',', ';') if nocomma else s


def g_caps(rng):
    fs = ['cpu', 'core', 'ram', 'disk', 'bw', 'burst_size', 'unit', 'mtu']
    return {f: rng.choice([1, 2, 8, 100, 4096, 10 ** 12]) for f in rng.sample(fs, rng.randint(1, 4))}


def g_ipv4(rng):
    return '.'.join(str(rng.choice([0, 1, 10, 127, 192, 255, rng.randint(0, 255)])) for _ in range(4))


def g_labels(rng):
    pool = {'vlan': lambda: str(rng.randint(1, 4000)), 'mac': lambda: ':'.join('%02x' % rng.randint(0, 255) for _ in range(6)),
            'ipv4': lambda: g_ipv4(rng), 'local_name': lambda: g_name(rng), 'device_name': lambda: g_name(rng),
            'bdf': lambda: '0000:%02x:%02x.%x' % (rng.randint(0, 255), rng.randint(0, 31), rng.randint(0, 7)),
            'vlan_range': lambda: rng.choice(['100-200', ['1-10', '20-30']]),
            'ipv4_subnet': lambda: g_ipv4(rng) + '/24', 'asn': lambda: str(rng.randint(1, 70000))}
    return {f: pool[f]() for f in rng.sample(sorted(pool), rng.randint(1, 3))}


def g_json_text(rng):
    v = rng.choice([{}, {'a': 1}, {'k': g_text(rng), 'n': [1, 2.5, None, True]}, [1, 2, 3], 'text', 7,
                    {'nested': {'x': {'y': [g_text(rng, 0, 5)]}}}])
    return json.dumps(v) if rng.random() < 0.8 else json.dumps(v, indent=1)


def g_deleg(rng, atype):
    out = []
    for j in range(rng.randint(1, 2)):
        fmt = rng.choice(['SinglePool', 'PoolDefinition', 'PoolReference'])
        pool = None if fmt == 'SinglePool' else g_name(rng)
        det = None if fmt == 'PoolReference' else (g_caps(rng) if atype == 'CAPACITY' else g_labels(rng))
        out.append(['del%d' % j, fmt, pool, det])
    return ['deleg', atype, out]


def g_iso(rng):
    return '20%02d-%02d-%02dT%02d:%02d:%02d' % (rng.randint(20, 30), rng.randint(1, 12), rng.randint(1, 28),
                                                rng.randint(0, 23), rng.randint(0, 59), rng.randint(0, 59))


# strings that look like "no value" to some backend (Neo4j returns the word 'None' for an absent field)
SENTINELS = ['', 'None', 'null', 'NULL', 'nan', 'NaN', 'True', 'False', '0', '[]', '{}', 'undefined']
STRING_KWS = ('model', 'details', 'site', 'allocation_constraints', 'service_endpoint', 'controller_url',
              'mirror_port', 'mirror_vlan', 'technology', 'boot_script')


def gen_value(rng, kind, kw):
    I = Impl.get()
    if kw == 'name':
        return ['str', g_name(rng)]
    if kw == 'type':
        return ['enum', I.TYPE[kind].__name__, rng.choice(list(I.TYPE[kind])).name]
    if kw in STRING_KWS:
        # one time in five a string a backend might confuse with "no value"
        return ['str', rng.choice(SENTINELS) if rng.random() < 0.2 else g_text(rng)]
    if kw == 'image_ref':
        return ['str', rng.choice(SENTINELS[1:]) if rng.random() < 0.15 else g_text(rng, 1, 10)]   # may contain commas
    if kw == 'image_type':
        return ['str', rng.choice(SENTINELS[1:]) if rng.random() < 0.15 else g_text(rng, 1, 10, nocomma=True)]
    if kw in ('capacities', 'capacity_allocations'):
        return ['caps', g_caps(rng)]
    if kw == 'capacity_hints':
        return ['hints', {'instance_type': g_name(rng)}]
    if kw in ('labels', 'label_allocations', 'peer_labels'):
        return ['labels', g_labels(rng)]
    if kw == 'reservation_info':
        fs = {'reservation_id': g_name(rng), 'reservation_state': rng.choice(['Active', 'Ticketed', 'Failed']),
              'error_message': g_text(rng)}
        return ['rinfo', {f: fs[f] for f in rng.sample(sorted(fs), rng.randint(1, 3))}]
    if kw == 'structural_info':
        fs = {'sub_graph_id': g_name(rng), 'parent_graph_id': g_name(rng), 'adm_graph_ids': [g_name(rng), g_name(rng)]}
        return ['sinfo', {f: fs[f] for f in rng.sample(sorted(fs), rng.randint(1, 3))}]
    if kw == 'capacity_delegations':
        return g_deleg(rng, 'CAPACITY')
    if kw == 'label_delegations':
        return g_deleg(rng, 'LABEL')
    if kw == 'tags':
        return ['tags', [g_name(rng, 1, 6).replace('.', '-') for _ in range(rng.randint(0, 3))]]
    if kw == 'flags':
        fs = ['auto_config', 'auto_mount', 'ipv4_management', 'ptp']
        return ['flags', {f: rng.random() < 0.5 for f in rng.sample(fs, rng.randint(0, 4))}]
    if kw == 'mf_data':
        return ['mf', g_json_text(rng)]
    if kw == 'user_data':
        return ['ud', g_json_text(rng)]
    if kw == 'layout_data':
        return ['ld', g_json_text(rng)]
    if kw == 'node_map':
        return ['tuple', [g_text(rng, 1, 8), g_text(rng, 1, 8)]]
    if kw == 'stitch_node':
        return ['bool', rng.random() < 0.6]
    if kw == 'location':
        fs = {'postal': g_text(rng, 1, 20), 'lat': rng.choice([0.0, 35.9, -78.5, 1e-7]), 'lon': rng.choice([0.0, 12.25, -122.0])}
        return ['loc', {f: fs[f] for f in rng.sample(sorted(fs), rng.randint(1, 3))}]
    if kw == 'maintenance_info':
        ents = []
        for j in range(rng.randint(1, 2)):
            ents.append([g_name(rng), [rng.choice(['Active', 'PreMaint', 'Maint']),
                                       g_iso(rng) if rng.random() < 0.6 else None,
                                       g_iso(rng) if rng.random() < 0.4 else None]])
        return ['maint', ents]
    if kw == 'management_ip':
        if rng.random() < 0.7:
            return ['str', g_ipv4(rng)]
        import ipaddress
        return ['str', str(ipaddress.IPv6Address(rng.getrandbits(128) if rng.random() < 0.5 else rng.choice([1, 2 ** 64, 0xfe80 << 112])))]
    if kw == 'layer':
        return ['enum', 'NSLayer', rng.choice(['L0', 'L1', 'L2', 'L3'])]
    if kw == 'mirror_direction':
        return ['enum', 'MirrorDirection', rng.choice(['Both', 'RX_Only', 'TX_Only'])]
    if kw in ('ero', 'pinfo', 'path_info'):
        tag = 'ero' if kw == 'ero' else 'pinfo'
        if rng.random() < 0.3:
            return [tag, 'Graph', rng.random() < 0.5, g_name(rng)]
        return [tag, 'Path', rng.random() < 0.5, [g_ipv4(rng) for _ in range(rng.randint(1, 3))]]
    if kw == 'gateway':
        if rng.random() < 0.5:
            lab = {'ipv4_subnet': g_ipv4(rng) + '/24', 'ipv4': g_ipv4(rng)}
        else:
            lab = {'ipv6_subnet': '2001:db8::/64', 'ipv6': '2001:db8::1'}
        if rng.random() < 0.3:
            lab['mac'] = '00:11:22:33:44:55'
        return ['gw', lab]
    raise KeyError(kw)


BLOB = {'mf_data': ('mf', 'MeasurementData'), 'user_data': ('ud', 'UserData'), 'layout_data': ('ld', 'LayoutData')}


def blob_spec(p, delta, as_object):
    """a JSON blob for property p whose encoding has exactly MAX_SIZE + delta characters, given to the
    constructor as a Python object (it encodes it) or as the JSON string itself"""
    I = Impl.get()
    tag, cls = BLOB[p]
    n = getattr(I, cls).MAX_SIZE + delta
    obj = {'k': 'x' * (n - len(json.dumps({'k': ''})))}
    assert len(json.dumps(obj)) == n
    return [tag + 'o', obj] if as_object else [tag, json.dumps(obj)]


def try_value(spec):
    """the value, or None when its own constructor refuses it"""
    try:
        return build_value(spec)
    except Exception:
        return None


def gen_props(rng, kind, mode, cover=None):
    """a property list of one sliver. mode: 'full' (every setter once), 'some', 'min' (name, type)"""
    voc = vocabulary(kind)
    if mode == 'full':
        kws = list(voc)
    elif mode == 'some':
        kws = rng.sample(voc, rng.randint(0, 6))
    else:
        kws = []
    kws = ['name', 'type'] + [k for k in kws if k not in ('name', 'type')]
    if mode != 'full' and 'image_ref' in kws and 'image_type' not in kws and rng.random() < 0.8:
        kws.append('image_type')
    head, tail = kws[:2], kws[2:]
    rng.shuffle(tail)
    out = [[k, gen_value(rng, kind, k)] for k in head + tail]
    if cover is not None:
        for k in head + tail:
            cover[(kind, k)] = cover.get((kind, k), 0) + 1
    return out


# ----------------------------------------------------------------------------------------------
# independent comparison of an original and a rebuilt sliver (property oracle)
# ----------------------------------------------------------------------------------------------
KNOWN_TAGS = {
    'lone-image-half': 'a NodeSliver carrying only one of image_ref / image_type loses it in the sliver-level converters',
}


def nothing_set(tokv):
    """a value object with nothing set: encoded as empty text and read back as absent - documented (C03)"""
    return tokv is not None and tokv[0] == 'FObj' and tokv[2] in ('', None)


def diff_attrs(kind, orig, back, path, out):
    o, b = dict(map(tuple, [(k, json.dumps(v)) for k, v in orig])), dict(map(tuple, [(k, json.dumps(v)) for k, v in back]))
    od, bd = {k: v for k, v in orig}, {k: v for k, v in back}
    for k in od:
        if k not in bd:
            out.append((None, '%s.%s: attribute missing after the round trip' % (path, k)))
            continue
        if o[k] == b[k]:
            continue
        ov, bv = od[k], bd[k]
        tag = None
        if nothing_set(ov) and bv is None:
            continue
        if k in ('image_ref', 'image_type') and bv is None and (od.get('image_ref') is None or od.get('image_type') is None):
            tag = 'lone-image-half'
        out.append((tag, '%s.%s: %s became %s' % (path, k, json.dumps(ov)[:80], json.dumps(bv)[:80])))
    for k in bd:
        if k not in od:
            out.append((None, '%s.%s: new attribute after the round trip' % (path, k)))


def tree_name(t):
    for k, v in t['a']:
        if k == 'resource_name':
            return v[1] if v else None
    return None


def tok_dedicated(t):
    return dict(map(tuple, [(k, json.dumps(v)) for k, v in t['a']])).get('resource_type') == json.dumps(['FEnum', 'InterfaceType', 'DedicatedPort'])


def diff_tree(orig, back, route, path, out, parent_kind=None):
    if back is None:
        out.append((None, '%s: sliver missing after the round trip' % path))
        return
    if orig['k'] != back['k']:
        out.append((None, '%s: class %s became %s' % (path, orig['k'], back['k'])))
        return
    if route == 'graph' and orig['id'] != back['id']:
        out.append((None, '%s: node id %r became %r' % (path, orig['id'], back['id'])))
    diff_attrs(orig['k'], orig['a'], back['a'], path, out)
    for slot in ('c', 'n', 'i'):
        if route == 'graph' and slot == 'i' and orig['k'] == 'interface' and \
                (parent_kind == 'interface' or not tok_dedicated(orig)):
            # outside the graph route's domain: the API only lets a DedicatedPort own child interfaces, one level
            # deep (add_child_interface asserts it), and build_deep_interface_sliver only descends there
            continue
        oc = {tree_name(x): x for x in (orig[slot] or [])}
        bc = {tree_name(x): x for x in (back[slot] or [])}
        for nm in oc:
            if nm not in bc:
                out.append((None, '%s/%s[%s]: child lost' % (path, slot, nm)))
            else:
                diff_tree(oc[nm], bc[nm], route, '%s/%s[%s]' % (path, slot, nm), out, orig['k'])
        for nm in bc:
            if nm not in oc:
                out.append((None, '%s/%s[%s]: child appeared' % (path, slot, nm)))


def verdict(devs):
    """None when no deviation; 'K:tag+tag | ...' when every deviation is a recorded finding; else 'NEW | ...'"""
    if not devs:
        return None
    new = [d for t, d in devs if t is None]
    if new:
        return 'NEW | ' + '; '.join(new[:4])
    tags = sorted({t for t, _ in devs})
    return 'K:' + '+'.join(tags) + ' | ' + '; '.join(d for _, d in devs[:3])



def strict_failing(st, case, failing):
    """while shrinking a NEW violation, a smaller case that only shows a recorded finding does not count"""
    why = st.oracle(case, st.observe(case))
    if why and why.startswith('NEW'):
        return lambda cc: (st.oracle(cc, st.observe(cc)) or '').startswith('NEW')
    return failing


def observing(f):
    try:
        return f()
    except Exception as e:
        return {'err': type(e).__name__, 'msg': str(e)[:120]}


def is_err(x):
    return isinstance(x, dict) and 'err' in x


# ----------------------------------------------------------------------------------------------
# stream 1: flat
# ----------------------------------------------------------------------------------------------
class Flat(Stream):
    name = 'flat'
    header = HEADER
    case_type = 'kind * attrs * option props * option attrs'
    check_fn = 'check_flat'
    shard = 25
    rule = ('one sliver of each of the 5 classes; properties drawn from the class\'s full setter vocabulary '
            '(list_properties()): modes full (every setter), some (0-6 random setters), min (name+type); '
            'distinct by property list; non-trivial = at least 3 properties besides name/type')

    def __init__(self):
        self.cover = {}

    def gen(self, rng, tier):
        n = 40 if tier == 'quick' else 1200
        out = []
        for k in KINDS:                       # every setter of every class at least twice per run
            for _ in range(2):
                out.append({'k': k, 'id': 'id-' + g_name(rng), 'props': gen_props(rng, k, 'full', self.cover)})
        # every string-valued property of every class holding a sentinel-looking string
        for k in KINDS:
            kws = [p for p in vocabulary(k) if p in STRING_KWS]
            for j, sv in enumerate(SENTINELS[1:]):
                if j % 3 == 0 or sv == 'None':
                    out.append({'k': k, 'id': 'id-sent', 'props': [['name', ['str', 'sent-%d' % j]]] + [[p, ['str', sv]] for p in kws]})
        # JSON blobs whose encoding is exactly MAX_SIZE-1 / MAX_SIZE characters, given as object and as string
        # (MAX_SIZE+1 is refused by the blob's constructor: such a sliver cannot be built - counted, trivial)
        for p in BLOB:
            for delta, as_obj in ((0, True), (0, False), (-1, True), (1, True), (1, False)):
                k = rng.choice(KINDS)
                c = {'k': k, 'id': 'id-blob', 'props': [['name', ['str', 'blob-' + p.replace('_', '-')]],
                                                        [p, blob_spec(p, delta, as_obj)]]}
                if delta > 0:
                    c['refused'] = True
                out.append(c)
        for i in range(n):
            k = KINDS[i % 5]
            mode = rng.choice(['full', 'some', 'some', 'some', 'min'])
            out.append({'k': k, 'id': 'id-' + g_name(rng), 'props': gen_props(rng, k, mode, self.cover)})
        return out

    def corpus(self):
        c = [
            {'k': 'node', 'id': 'n1', 'props': [['name', ['str', 'n1']], ['type', ['enum', 'NodeType', 'VM']],
                                                ['image_ref', ['str', 'img']]]},
            {'k': 'node', 'id': 'n1', 'props': [['name', ['str', 'n1']], ['type', ['enum', 'NodeType', 'VM']],
                                                ['image_ref', ['str', 'a,b']], ['image_type', ['str', 'qcow2']]]},
            {'k': 'node', 'id': 'n1', 'props': [['name', ['str', 'n1']], ['type', ['enum', 'NodeType', 'VM']],
                                                ['capacities', ['caps', {}]], ['labels', ['labels', {}]]]},
            {'k': 'service', 'id': 's1', 'props': [['name', ['str', 's1']], ['type', ['enum', 'ServiceType', 'L2Bridge']],
                                                   ['gateway', ['gw', None]]]},
            {'k': 'link', 'id': 'l1', 'props': [['name', ['str', 'l1']]]},
            {'k': 'interface', 'id': 'i1', 'props': [['type', ['enum', 'InterfaceType', 'TrunkPort']]]},
        ]
        return c + load_corpus('flat')

    def observe(self, case):
        I = Impl.get()
        k = case['k']
        try:
            sl = build_sliver(case)
        except Exception as e:
            return {'build_err': type(e).__name__}
        a = abs_attrs(sl)
        G = I.ABCPropertyGraph
        fam = {'node': 'node', 'component': 'component', 'service': 'network_service', 'interface': 'interface',
               'link': 'link'}[k]
        d = observing(lambda: getattr(G, fam + '_sliver_to_graph_properties_dict')(sl))
        back = None
        again = None
        if not is_err(d):
            holder = {}

            def rebuild():
                holder['sl'] = getattr(G, fam + '_sliver_from_graph_properties_dict')(dict(d))
                return abs_attrs(holder['sl'])
            back = observing(rebuild)
            if not is_err(back):
                # modify every decoded value object in place, then decode the SAME properties once more:
                # what comes back must depend on the stored text only
                n = sum(1 for v in holder['sl'].__dict__.values() if mutate_in_place(v))
                if n:
                    again = observing(lambda: abs_attrs(getattr(G, fam + '_sliver_from_graph_properties_dict')(dict(d))))
            d = abs_props(d)
        return {'a': a, 'd': d, 'back': back, 'again': again}

    def to_coq(self, case, o):
        if 'build_err' in o:
            return '(KLink, [], Some [], None)'      # no sliver to convert (its value was refused): a case the model trivially agrees on
        d = None if is_err(o['d']) else o['d']
        b = None if (o['back'] is None or is_err(o['back'])) else o['back']
        return '(%s, %s, %s, %s)' % (KCOQ[case['k']], c_attrs(o['a']), copt(d, c_props), copt(b, c_attrs))

    def oracle(self, case, o):
        if case.get('refused'):
            return None if 'build_err' in o else 'NEW | a JSON blob whose encoding is longer than MAX_SIZE was accepted'
        if 'build_err' in o:
            return None
        if is_err(o['d']):
            return 'NEW | conversion to graph properties raised ' + o['d']['err']
        if is_err(o['back']):
            od = dict(map(tuple, o['a']))
            if od.get('resource_name') is None:
                return None            # documented: a sliver without a name cannot be rebuilt (set_name raises)
            return 'NEW | rebuilding the sliver from its properties raised %s %s' % (o['back']['err'], o['back']['msg'])
        devs = []
        diff_attrs(case['k'], o['a'], o['back'], case['k'], devs)
        if o.get('again') is not None:
            if is_err(o['again']):
                devs.append((None, 'decoding the same properties a second time raised ' + o['again']['err']))
            elif json.dumps(o['again']) != json.dumps(o['back']):
                diff = [k for (k, v), (_, w) in zip(o['back'], o['again']) if json.dumps(v) != json.dumps(w)]
                devs.append((None, 'decoding the same properties again, after the first result was modified in place, '
                                   'returns different values for %s' % diff[:4]))
        return verdict(devs)

    def key(self, case, o):
        if len(case['props']) >= 5:
            return stable_hash(case['props'])
        return None

    def histogram(self, cases, obs):
        h = {'by_kind': {}, 'mode_full': 0, 'rebuild_raised': 0}
        for c, o in zip(cases, obs):
            h['by_kind'][c['k']] = h['by_kind'].get(c['k'], 0) + 1
            h['mode_full'] += len(c['props']) >= len(vocabulary(c['k']))
            h['rebuild_raised'] += bool(o.get('back') is not None and is_err(o.get('back')))
        miss = [('%s.%s' % (k, p)) for k in KINDS for p in vocabulary(k) if self.cover.get((k, p), 0) == 0]
        h['setters_total'] = sum(len(vocabulary(k)) for k in KINDS)
        h['setters_never_set'] = miss
        h['min_times_a_setter_was_used'] = min([self.cover.get((k, p), 0) for k in KINDS for p in vocabulary(k)] or [0])
        return h

    def describe(self, case, o):
        return {'case': {'k': case['k'], 'props': [p[0] for p in case['props']]},
                'impl': {'properties': (o.get('d') if not is_err(o.get('d')) else o.get('d'))}}

    def shrink(self, case, failing):
        failing = strict_failing(self, case, failing)
        case = copy.deepcopy(case)
        i = len(case['props']) - 1
        while i >= 0:
            if case['props'][i][0] not in ('name',):
                trial = copy.deepcopy(case)
                del trial['props'][i]
                if failing(trial):
                    case = trial
            i -= 1
        return case


# ----------------------------------------------------------------------------------------------
# stream 2: deep
# ----------------------------------------------------------------------------------------------
def gen_tree(rng, kind, depth, budget, cover, ids, mode=None, parent_type=None):
    """containment shapes: node > comps > nss > ifs > sub-ifs; node > nss; depth = remaining levels"""
    mode = mode or rng.choice(['some', 'some', 'min', 'full'] if budget[0] > 6 else ['min', 'some'])
    props = gen_props(rng, kind, mode, cover)
    ids[0] += 1
    t = {'k': kind, 'id': '%s-%d' % (kind[:2], ids[0]), 'props': props}
    # unique sibling names are the caller's business
    budget[0] -= 1

    def children(ck, maxn):
        if depth <= 0 or budget[0] <= 0:
            return rng.choice([None, None, []])
        n = rng.choice([0] + list(range(1, maxn + 1)) * 2)
        if n == 0:
            return rng.choice([None, []])
        out, names = [], set()
        for _ in range(n):
            if budget[0] <= 0:
                break
            c = gen_tree(rng, ck, depth - 1, budget, cover, ids)
            nm = c['props'][0][1][1]
            if nm in names:
                continue
            names.add(nm)
            out.append(c)
        return out
    if kind == 'node':
        t['comps'] = children('component', 3)
        t['nss'] = children('service', 2)
    elif kind == 'component':
        t['nss'] = children('service', 2)
    elif kind == 'service':
        t['ifs'] = children('interface', 3)
    elif kind == 'interface':
        ty = [p for p in props if p[0] == 'type'][0][1][2]
        if ty == 'DedicatedPort' or rng.random() < 0.15:
            t['ifs'] = children('interface', 2)
    return t


def count_nodes(t):
    return 1 + sum(count_nodes(c) for s in ('comps', 'nss', 'ifs') for c in (t.get(s) or []))


def tree_depth(t):
    return 1 + max([tree_depth(c) for s in ('comps', 'nss', 'ifs') for c in (t.get(s) or [])] or [0])


def reset_store():
    I = Impl.get()
    imp = I.NetworkXGraphImporter()
    try:
        imp.delete_all_graphs()
    except Exception:
        pass
    return imp


class Deep(Stream):
    name = 'deep'
    header = HEADER
    case_type = 'tree * option dd * option tree * option tree * option tree * option tree * option tree'
    check_fn = 'check_deep'
    shard = 8
    rule = ('sliver trees of every containment shape (node>components>services>interfaces>sub-interfaces, '
            'node>services, stand-alone service/interface/link) to depth 5 levels, 0-3 children per level, None / empty / '
            'non-empty child dictionaries; three routes; non-trivial = at least 3 slivers in the tree; distinct by tree')

    def __init__(self):
        self.cover = {}

    def gen(self, rng, tier):
        n = 50 if tier == 'quick' else 1500
        out = []
        for i in range(n):
            kind = rng.choice(['node'] * 6 + ['service'] * 3 + ['interface', 'interface', 'link', 'component'])
            budget = [rng.choice([2, 4, 6, 10, 14] if tier == 'quick' else [2, 4, 6, 10, 20, 30])]
            out.append(gen_tree(rng, kind, 4, budget, self.cover, [0]))

        # boundary-size JSON blobs (encoding of exactly MAX_SIZE characters, given as objects) on a node, its
        # component and the component's service: all three routes
        def sl(k, name, en, ty, p, **kw):
            d = {'k': k, 'id': name + '-id', 'props': [['name', ['str', name]], ['type', ['enum', en, ty]],
                                                       [p, blob_spec(p, 0, True)]]}
            d.update(kw)
            return d
        ns = sl('service', 'bns1', 'ServiceType', 'OVS', 'layout_data')
        comp = sl('component', 'bnic1', 'ComponentType', 'SmartNIC', 'user_data', nss=[ns])
        out.append(sl('node', 'bnode1', 'NodeType', 'Server', 'mf_data', comps=[comp], nss=None))
        out.append(sl('node', 'bnode2', 'NodeType', 'VM', 'user_data', comps=None, nss=None))
        return out

    def corpus(self):
        def s(k, name, ty, **kw):
            en = {'node': 'NodeType', 'component': 'ComponentType', 'service': 'ServiceType', 'interface': 'InterfaceType',
                  'link': 'LinkType'}[k]
            d = {'k': k, 'id': name + '-id', 'props': [['name', ['str', name]], ['type', ['enum', en, ty]]]}
            d.update(kw)
            return d
        sub = s('interface', 'sub1', 'SubInterface')
        ded = s('interface', 'p1', 'DedicatedPort', ifs=[sub])
        ns = s('service', 'ns1', 'OVS', ifs=[ded])
        comp = s('component', 'nic1', 'SmartNIC', nss=[ns])
        return [s('node', 'node1', 'Server', comps=[comp], nss=[s('service', 'ns2', 'OVS', ifs=[s('interface', 'p2', 'TrunkPort')])]),
                s('node', 'node2', 'VM', comps=[], nss=None),
                s('service', 'st1', 'L2Bridge', ifs=[s('interface', 'q1', 'AccessPort', ifs=[s('interface', 'q2', 'SubInterface')])]),
                s('link', 'l1', 'Patch'), s('interface', 'alone', 'DedicatedPort', ifs=[sub])] + load_corpus('deep')

    def observe(self, case):
        I = Impl.get()
        G = I.ABCPropertyGraph
        try:
            sl = build_sliver(case)
        except Exception as e:
            return {'build_err': type(e).__name__}
        k = case['k']
        o = {'t': abs_tree(sl)}
        fam = {'node': 'node', 'component': 'component', 'service': 'ns', 'interface': 'interface', 'link': 'link'}[k]
        d = observing(lambda: G.sliver_to_dict(sl))
        o['dict'] = d if is_err(d) else abs_dd(d)
        if is_err(d):
            o['via_dict'] = o['via_json'] = d
        else:
            snapshot = copy.deepcopy(d)
            conv = getattr(G, 'build_deep_%s_sliver_from_dict' % fam)
            # the SAME dictionary object is converted twice: the caller's dictionary must not be modified and
            # the second conversion must give what the first gave
            o['via_dict'] = observing(lambda: abs_tree(conv(props=d)))
            o['dict_modified'] = (d != snapshot)
            o['via_dict_again'] = observing(lambda: abs_tree(conv(props=d)))
            d = snapshot

            def via_json():
                s = I.JSONSliver.sliver_to_json(sl)
                if k == 'node':
                    return abs_tree(I.JSONSliver.node_sliver_from_json(s))
                if k == 'service':
                    return abs_tree(I.JSONSliver.network_service_sliver_from_json(s))
                # JSONSliver offers node and service only; the other classes go through json by hand
                return abs_tree(getattr(G, 'build_deep_%s_sliver_from_dict' % fam)(props=json.loads(s)))
            o['via_json'] = observing(via_json)

        def via_graph():
            imp = reset_store()
            g = I.NetworkXPropertyGraph(graph_id='c02-graph', importer=imp)
            try:
                if k == 'node':
                    g.add_network_node_sliver(sliver=sl)
                elif k == 'service':
                    g.add_network_service_sliver(parent_node_id=None, network_service=sl)
                elif k == 'interface':
                    g.add_interface_sliver(parent_node_id=None, interface=sl)
                elif k == 'link':
                    g.add_network_link_sliver(lsliver=sl, interfaces=[])
                else:
                    # components are only written under a node: a host node that is already in the graph
                    g.add_node(node_id='host-id', label=G.CLASS_NetworkNode, props={'Name': 'host'})
                    g.add_component_sliver(parent_node_id='host-id', component=sl)
                return abs_tree(getattr(g, 'build_deep_%s_sliver' % fam)(node_id=sl.node_id))
            finally:
                imp.delete_all_graphs()
        o['via_graph'] = observing(via_graph)

        def after_removal(disjoint):
            """a graph where a node that is not the newest was removed before (on the single store or on the
            per-graph disjoint store): the sliver must come back, and what was in the graph must be untouched"""
            if disjoint:
                imp = I.NetworkXGraphImporterDisjoint()
                try:
                    imp.delete_all_graphs()
                except Exception:
                    pass
                g = I.NetworkXPropertyGraphDisjoint(graph_id='c02-disjoint', importer=imp)
            else:
                imp = reset_store()
                g = I.NetworkXPropertyGraph(graph_id='c02-single', importer=imp)
            try:
                g.add_node(node_id='filler-A', label=G.CLASS_NetworkNode, props={'Name': 'fillerA', 'Type': 'Server'})
                g.add_node(node_id='filler-B', label=G.CLASS_NetworkNode, props={'Name': 'fillerB', 'Type': 'Server', 'Site': 'S'})
                g.add_node(node_id='filler-C', label=G.CLASS_Component, props={'Name': 'fillerC', 'Type': 'GPU', 'Model': 'm'})
                g.add_link(node_a='filler-B', rel=G.REL_HAS, node_b='filler-C')
                g.delete_node(node_id='filler-A')          # not the most recently added node
                before = abs_tree(g.build_deep_node_sliver(node_id='filler-B'))
                if k == 'node':
                    g.add_network_node_sliver(sliver=sl)
                elif k == 'service':
                    g.add_network_service_sliver(parent_node_id=None, network_service=sl)
                elif k == 'interface':
                    g.add_interface_sliver(parent_node_id=None, interface=sl)
                elif k == 'link':
                    g.add_network_link_sliver(lsliver=sl, interfaces=[])
                else:
                    g.add_component_sliver(parent_node_id='filler-B', component=sl)
                back = abs_tree(getattr(g, 'build_deep_%s_sliver' % fam)(node_id=sl.node_id))
                after = observing(lambda: abs_tree(g.build_deep_node_sliver(node_id='filler-B')))
                frame = None
                if is_err(after):
                    frame = 'the node filler-B that was in the graph can no longer be rebuilt: ' + after['err']
                else:
                    if k == 'component':          # the new component is the only change under its parent
                        after['c'] = [c for c in (after['c'] or []) if c['id'] != sl.node_id]
                    if json.dumps(after, sort_keys=True) != json.dumps(before, sort_keys=True):
                        frame = 'the node filler-B that was in the graph changed'
                return {'back': back, 'frame': frame}
            finally:
                try:
                    imp.delete_all_graphs()
                except Exception:
                    pass
        o['via_single_rm'] = observing(lambda: after_removal(False))
        o['via_disjoint'] = observing(lambda: after_removal(True))
        return o

    def to_coq(self, case, o):
        if 'build_err' in o:
            return '(T KLink None [] None None None, None, None, None, None, None, None)'

        def ot(x, f):
            return 'None' if is_err(x) else '(Some %s)' % f(x)

        def rm(x):
            return 'None' if is_err(x) else '(Some %s)' % c_tree(x['back'])
        return '(%s, %s, %s, %s, %s, %s, %s)' % (c_tree(o['t']), ot(o['dict'], c_dd), ot(o['via_dict'], c_tree),
                                                 ot(o['via_json'], c_tree), ot(o['via_graph'], c_tree),
                                                 rm(o['via_single_rm']), rm(o['via_disjoint']))

    def oracle(self, case, o):
        if 'build_err' in o:
            return None
        devs = []
        for route in ('dict', 'json', 'graph'):
            r = o['via_' + route]
            if is_err(r):
                devs.append((None, '%s route raised %s %s' % (route, r['err'], r.get('msg', ''))))
                continue
            sub = []
            diff_tree(o['t'], r, route, route + ':' + case['k'], sub)
            devs += sub
        if o.get('dict_modified'):
            devs.append((None, 'dict route: the conversion modified the dictionary it was given'))
        r2 = o.get('via_dict_again')
        if r2 is not None and not is_err(o['via_dict']):
            if is_err(r2):
                devs.append((None, 'dict route: converting the same dictionary a second time raised ' + r2['err']))
            elif json.dumps(r2, sort_keys=True) != json.dumps(o['via_dict'], sort_keys=True):
                sub = []
                diff_tree(o['via_dict'], r2, 'dict', 'dict(second conversion of the same dictionary):' + case['k'], sub)
                devs += sub or [(None, 'dict route: the second conversion of the same dictionary differs')]
        for store, key in (('single store', 'via_single_rm'), ('disjoint store', 'via_disjoint')):
            dj = o.get(key)
            if dj is None:
                continue
            if is_err(dj):
                devs.append((None, '%s, after a removal: writing / rebuilding raised %s %s' % (store, dj['err'], dj.get('msg', ''))))
            else:
                sub = []
                diff_tree(o['t'], dj['back'], 'graph', '%s(after a removal):%s' % (store, case['k']), sub)
                devs += sub
                if dj['frame']:
                    devs.append((None, '%s, after a removal: %s' % (store, dj['frame'])))
        return verdict(devs)

    def key(self, case, o):
        if count_nodes(case) >= 3:
            return stable_hash(case)
        return None

    def histogram(self, cases, obs):
        h = {'root_kind': {}, 'slivers_per_tree': {}, 'levels': {}, 'with_subinterfaces': 0, 'empty_info': 0, 'raised': 0}
        for c, o in zip(cases, obs):
            h['root_kind'][c['k']] = h['root_kind'].get(c['k'], 0) + 1
            n = count_nodes(c)
            b = '1' if n == 1 else '2-4' if n <= 4 else '5-9' if n <= 9 else '10+'
            h['slivers_per_tree'][b] = h['slivers_per_tree'].get(b, 0) + 1
            d = str(tree_depth(c))
            h['levels'][d] = h['levels'].get(d, 0) + 1
            js = json.dumps(c)
            h['with_subinterfaces'] += '"SubInterface"' in js
            h['empty_info'] += ': []' in js
            h['raised'] += any(is_err(o.get('via_' + r)) for r in ('dict', 'json', 'graph') if 'build_err' not in o)
        return h

    def describe(self, case, o):
        return {'case': {'root': case['k'], 'slivers': count_nodes(case), 'levels': tree_depth(case)},
                'impl': {'dict_keys': [p[0] for p in o['dict']['p']] if 'dict' in o and not is_err(o['dict']) else None}}

    def shrink(self, case, failing):
        failing = strict_failing(self, case, failing)
        case = copy.deepcopy(case)

        def walk(t, path):
            yield t, path
            for s in ('comps', 'nss', 'ifs'):
                for i, c in enumerate(t.get(s) or []):
                    yield from walk(c, path + [(s, i)])
        changed = True
        rounds = 0
        while changed and rounds < 6:
            changed = False
            rounds += 1
            for t, path in list(walk(case, [])):
                for s in ('comps', 'nss', 'ifs'):
                    l = t.get(s)
                    if l:
                        for i in range(len(l) - 1, -1, -1):
                            saved = l[i]
                            del l[i]
                            if failing(case):
                                changed = True
                            else:
                                l.insert(i, saved)
                i = len(t['props']) - 1
                while i >= 2:
                    saved = t['props'][i]
                    del t['props'][i]
                    if failing(case):
                        changed = True
                    else:
                        t['props'].insert(i, saved)
                    i -= 1
        return case


# ----------------------------------------------------------------------------------------------
# stream 3: element
# ----------------------------------------------------------------------------------------------
def make_topology():
    """a live ExperimentTopology with one element of each class; returns (topo, {kind: element})"""
    I = Impl.get()
    reset_store()
    t = I.fu.ExperimentTopology()
    n1 = t.add_node(name='nodeA', site='RENC', ntype=I.NodeType.VM)
    n2 = t.add_node(name='nodeB', site='UKY', ntype=I.NodeType.VM)
    c1 = n1.add_component(name='nic1', ctype=I.ComponentType.SmartNIC, model='ConnectX-6')
    c2 = n2.add_component(name='nic2', ctype=I.ComponentType.SmartNIC, model='ConnectX-6')
    ifs = [c1.interface_list[0], c2.interface_list[0]]
    ns = t.add_network_service(name='bridge1', nstype=I.ServiceType.L2STS, interfaces=ifs)
    el = {'node': n1, 'component': c1, 'service': ns, 'interface': ifs[0]}
    links = list(t.links.values())
    if links:
        el['link'] = links[0]
    return t, el


class Element(Stream):
    name = 'element'
    header = HEADER
    case_type = 'kind * props * list op * list opres * props'
    check_fn = 'check_elem'
    shard = 50
    rule = ('sequences of 2-8 (thorough: 2-16) set_property / set_properties / get_property / unset operations on a node, component, '
            'service, interface or link element of a live ExperimentTopology (in-memory backend), property names from '
            'the class\'s full setter vocabulary; distinct by operation list; non-trivial = at least one set followed by a '
            'get of the same property')

    def __init__(self):
        self.cover = {}
        self.kinds = None

    def _kinds(self):
        if self.kinds is None:
            try:
                _, el = make_topology()
                self.kinds = sorted(el)
            except Exception:
                self.kinds = ['node']
        return self.kinds

    def gen_ops(self, rng, kind, n):
        voc = vocabulary(kind)
        ops = []
        for _ in range(n):
            p = rng.choice(voc) if not ops or rng.random() < 0.45 else rng.choice([o[1] for o in ops if o[0] != 'setmany'] or voc)
            r = rng.random()
            if r < 0.4:
                ops.append(['set', p, gen_value(rng, kind, p)])
                self.cover[(kind, p)] = self.cover.get((kind, p), 0) + 1
            elif r < 0.55:
                ops.append(['unset', p])
            elif r < 0.9:
                ops.append(['get' if rng.random() < 0.85 else 'getmut', p])
            else:
                ps = rng.sample(voc, rng.randint(1, 3))
                if kind == 'node' and rng.random() < 0.5:
                    ps = ['image_ref', 'image_type'] + [q for q in ps if q not in ('image_ref', 'image_type')]
                ops.append(['setmany', [[q, gen_value(rng, kind, q)] for q in ps]])
        return ops

    def gen(self, rng, tier):
        n = 100 if tier == 'quick' else 3000
        out = []
        kinds = self._kinds()
        # every settable property of every element class: set, get, unset, get
        for k in kinds:
            for p in vocabulary(k):
                v = gen_value(rng, k, p)
                self.cover[(k, p)] = self.cover.get((k, p), 0) + 1
                out.append({'k': k, 'ops': [['get', p], ['unset', p], ['get', p], ['set', p, v], ['get', p],
                                            ['unset', p], ['get', p]]})
        # JSON blobs whose encoding is exactly MAX_SIZE-1 / MAX_SIZE / MAX_SIZE+1 characters, given as object and
        # as string: accepted ones read back, MAX_SIZE+1 is refused and leaves the element unchanged;
        # through set_property and through the constructor
        for p in BLOB:
            out.append({'k': 'node', 'ops': [['set', p, blob_spec(p, 0, True)], ['get', p],
                                             ['set', p, blob_spec(p, 1, True)], ['get', p],
                                             ['set', p, blob_spec(p, -1, False)], ['get', p],
                                             ['set', p, blob_spec(p, 1, False)], ['get', p],
                                             ['set', p, blob_spec(p, 0, False)], ['get', p], ['get', 'site']]})
            k2 = [k for k in kinds if k != 'node'][len(out) % max(1, len(kinds) - 1)] if len(kinds) > 1 else 'node'
            out.append({'k': k2, 'ops': [['set', p, blob_spec(p, 0, True)], ['get', p], ['get', 'name']]})
            out.append({'k': 'node', 'ctor': [[p, blob_spec(p, 0, True)]], 'ops': [['get', p], ['get', 'site']]})
        # sentinel-looking strings are values like any other
        for k in kinds:
            for p in [q for q in vocabulary(k) if q in STRING_KWS]:
                sv = SENTINELS[1 + (len(out) % (len(SENTINELS) - 1))]
                out.append({'k': k, 'ops': [['set', p, ['str', 'None']], ['get', p], ['set', p, ['str', sv]], ['get', p]]})
        # a returned value object modified in place must not change what later reads return
        for k in kinds:
            for p in vocabulary(k):
                v = gen_value(rng, k, p)
                if v[0] in ('caps', 'hints', 'labels', 'rinfo', 'sinfo', 'loc', 'flags', 'tags'):
                    out.append({'k': k, 'ops': [['set', p, v], ['getmut', p], ['get', p]]})
        # legal falsy values ('' / False / ()) written over a truthy one must be read back, not dropped
        for k in kinds:
            for p in ('details', 'boot_script', 'model'):
                out.append({'k': k, 'ops': [['set', p, ['str', 'x']], ['set', p, ['str', '']], ['get', p]]})
            out.append({'k': k, 'ops': [['set', 'stitch_node', ['bool', True]], ['get', 'stitch_node'],
                                        ['set', 'stitch_node', ['bool', False]], ['get', 'stitch_node']]})
            out.append({'k': k, 'ops': [['set', 'node_map', ['tuple', ['a', 'b']]], ['set', 'node_map', ['tuple', []]],
                                        ['get', 'node_map']]})
        for i in range(n):
            k = kinds[i % len(kinds)]
            out.append({'k': k, 'ops': self.gen_ops(rng, k, rng.randint(2, 8 if tier == 'quick' else 16))})
        return out

    def corpus(self):
        return [{'k': 'node', 'ops': [['set', 'location', ['loc', {'postal': 'x'}]], ['unset', 'location'], ['get', 'location']]},
                {'k': 'node', 'ops': [['unset', 'capacities'], ['get', 'capacities']]},
                {'k': 'node', 'ops': [['setmany', [['image_ref', ['str', 'img']], ['image_type', ['str', 'qcow2']]]],
                                      ['get', 'image_ref'], ['get', 'image_type'], ['unset', 'image_ref'], ['get', 'image_type']]},
                {'k': 'node', 'ops': [['unset', 'name'], ['unset', 'type'], ['get', 'name']]}] + load_corpus('element')

    def observe(self, case):
        I = Impl.get()
        try:
            t, el = make_topology()
            e = el[case['k']]
            if case.get('ctor'):      # a node created with the properties given to the constructor
                e = t.add_node(name='nodeC', site='RENC', ntype=I.NodeType.VM,
                               **{q: build_value(v) for q, v in case['ctor']})
            gm = t.graph_model
            d0 = abs_props(gm.get_node_properties(node_id=e.node_id)[1])
        except Exception as ex:
            return {'setup_err': type(ex).__name__ + ': ' + str(ex)[:100]}
        res, expect = [], []
        for op in case['ops']:
            try:
                if op[0] == 'set':
                    # reference semantics of the setter/getter pair: a bare sliver without any graph
                    try:
                        bare = I.CLS[case['k']]()
                        bare.set_property(op[1], build_value(op[2]))
                        expect.append(tok(bare.get_property(op[1])))
                    except Exception:
                        expect.append('raises')
                    v = build_value(op[2])
                    e.set_property(op[1], v)
                    res.append('done')
                elif op[0] == 'unset':
                    expect.append(None)
                    e.set_property(op[1], None)
                    res.append('done')
                elif op[0] in ('get', 'getmut'):
                    expect.append(None)
                    got = e.get_property(op[1])
                    res.append(['val', tok(got)])
                    if op[0] == 'getmut':
                        mutate_in_place(got)      # user code modifies the object it was handed; nothing is written
                else:
                    expect.append(None)
                    e.set_properties(**{q: build_value(v) for q, v in op[1]})
                    res.append('done')
            except Exception as ex:
                res.append({'err': type(ex).__name__})
        try:
            dfin = abs_props(gm.get_node_properties(node_id=e.node_id)[1])
        except Exception as ex:
            dfin = [['?', type(ex).__name__]]
        reset_store()
        return {'d0': d0, 'res': res, 'dfin': dfin, 'bare': expect}

    def to_coq(self, case, o):
        if 'setup_err' in o:
            return '(%s, [], [], [], [])' % KCOQ[case['k']]
        ops = []
        for op in case['ops']:
            if op[0] == 'set':
                # the argument as the user passes it (or: its own constructor refuses it)
                v = try_value(op[2])
                ops.append('OBadValue %s' % c_string(op[1]) if v is None else
                           'OSet %s %s' % (c_string(op[1]), c_fval(tok(v))))
            elif op[0] == 'unset':
                ops.append('OUnset %s' % c_string(op[1]))
            elif op[0] in ('get', 'getmut'):
                ops.append('OGet %s' % c_string(op[1]))
            elif any(try_value(v) is None for _, v in op[1]):
                ops.append('OBadValue %s' % c_string(op[1][0][0]))
            else:
                ops.append('OSetMany %s' % clist(['(%s, %s)' % (c_string(q), c_ofval(tok(build_value(v)))) for q, v in op[1]]))
        rs = []
        for r in o['res']:
            if r == 'done':
                rs.append('RDone')
            elif is_err(r):
                rs.append('RRaise')
            else:
                rs.append('RVal %s' % c_ofval(r[1]))
        return '(%s, %s, %s, %s, %s)' % (KCOQ[case['k']], c_props(o['d0']), clist(ops), clist(rs), c_props(o['dfin']))

    def oracle(self, case, o):
        """get after set returns an equal value; get after unset returns None (per property; a set of another
        property in between is outside the statement only for stitch_node, which every write resets)"""
        if 'setup_err' in o:
            return 'NEW | could not build the topology: ' + o['setup_err']
        I = Impl.get()
        G = I.ABCPropertyGraph
        state = {}       # property -> ('set', token) | ('unset',)
        devs = []
        PAIR = {'image_ref': 'image_type', 'image_type': 'image_ref'}
        from fim.user.node import Node as _Node
        # proposed fix C02-4: a lone half of the image pair is completed with the stored other half,
        # and refused (TopologyException) when the node has none
        completes = case['k'] == 'node' and hasattr(_Node, '_complete_image_pair')
        pair_stored = False          # the topology's nodes are created without an image
        for q, v in case.get('ctor', []):
            try:
                bare = I.CLS[case['k']]()
                bare.set_property(q, build_value(v))
                state[q] = ('set', tok(bare.get_property(q)), 'multi')
            except Exception:
                pass
        for idx, (op, r, ex) in enumerate(zip(case['ops'], o['res'], o['bare'])):
            if op[0] == 'set':
                p = op[1]
                lone = p in PAIR
                if lone and completes and not pair_stored:
                    if not is_err(r):
                        devs.append((None, 'op %d lone %s accepted although the node has no %s' % (idx, p, PAIR[p])))
                    continue             # refused loudly: documented precondition, nothing stored
                if is_err(r):
                    if ex != 'raises':
                        devs.append((None, 'op %d set %s raised %s' % (idx, p, r['err'])))
                    continue
                state[p] = ('set', ex, 'multi' if (lone and completes) else 'single')
                if p != 'stitch_node':
                    state.pop('stitch_node', None)
                if lone and not completes:
                    state.pop(PAIR[p], None)
            elif op[0] == 'setmany':
                qs = [q for q, _ in op[1]]
                halves = [q for q in qs if q in PAIR]
                if len(halves) == 1 and completes and not pair_stored:
                    if not is_err(r):
                        devs.append((None, 'op %d lone %s accepted although the node has no %s' % (idx, halves[0], PAIR[halves[0]])))
                    continue             # the whole call is refused, nothing stored
                if is_err(r):
                    devs.append((None, 'op %d set_properties raised %s' % (idx, r['err'])))
                    continue
                for q, v in op[1]:
                    alone = q in PAIR and PAIR[q] not in qs and not completes
                    try:
                        bare = I.CLS[case['k']]()
                        bare.set_property(q, build_value(v))
                        state[q] = ('set', tok(bare.get_property(q)), 'single' if alone else 'multi')
                    except Exception:
                        state.pop(q, None)
                if len(halves) == 2:
                    pair_stored = True
                if 'stitch_node' not in qs:
                    state.pop('stitch_node', None)
            elif op[0] == 'unset':
                p = op[1]
                g = G.SLIVER_PROPERTY_TO_GRAPH.get(p)
                if is_err(r):
                    if g in G.NO_UNSET_PROPERTIES:
                        continue          # documented: name and type cannot be unset, the backend refuses loudly
                    devs.append((None, 'op %d unset %s raised %s' % (idx, p, r['err'])))
                    continue
                state[p] = ('unset',)
                if p in PAIR and g is not None:
                    state[PAIR[p]] = ('unset',)      # the pair is one graph property
                    pair_stored = False
            else:
                p = op[1]
                if is_err(r):
                    devs.append((None, 'op %d get %s raised %s' % (idx, p, r['err'])))
                    continue
                got = r[1]
                st = state.get(p)
                if st is None:
                    continue
                if st[0] == 'set':
                    if json.dumps(got) != json.dumps(st[1]) and not (nothing_set(st[1]) and got is None):
                        tag = None      # element level: no recorded finding any more (c7cf34d)
                        devs.append((tag, 'op %d get %s after set: %s, expected %s' % (idx, p, json.dumps(got)[:70], json.dumps(st[1])[:70])))
                elif st[0] == 'unset':
                    if got is not None and not (p == 'stitch_node' and got == ['FBool', False]
                                                and p in G.SLIVER_PROPERTY_TO_GRAPH):   # a flag reads its default
                        tag = None
                        devs.append((tag, 'op %d get %s after unset: %s, expected None' % (idx, p, json.dumps(got)[:70])))
        return verdict(devs)

    def key(self, case, o):
        seen = set()
        for op in case['ops']:
            if op[0] == 'set':
                seen.add(op[1])
            if op[0] == 'get' and op[1] in seen:
                return stable_hash(case)
        return None

    def histogram(self, cases, obs):
        h = {'by_kind': {}, 'ops': {'set': 0, 'unset': 0, 'get': 0, 'getmut': 0, 'setmany': 0}, 'raised_ops': 0}
        for c, o in zip(cases, obs):
            h['by_kind'][c['k']] = h['by_kind'].get(c['k'], 0) + 1
            for op in c['ops']:
                h['ops'][op[0]] += 1
            h['raised_ops'] += sum(1 for r in o.get('res', []) if is_err(r))
        h['element_kinds'] = self._kinds()
        h['properties_never_set'] = ['%s.%s' % (k, p) for k in self._kinds() for p in vocabulary(k)
                                     if self.cover.get((k, p), 0) == 0]
        return h

    def describe(self, case, o):
        return {'case': case, 'impl': {'results': o.get('res')}}

    def shrink(self, case, failing):
        failing = strict_failing(self, case, failing)
        case = copy.deepcopy(case)
        i = len(case['ops']) - 1
        while i >= 0 and len(case['ops']) > 1:
            trial = copy.deepcopy(case)
            del trial['ops'][i]
            if failing(trial):
                case = trial
            i -= 1
        return case


def load_corpus(stream):
    import glob as _g
    out = []
    for p in sorted(_g.glob(os.path.join(VERIF, 'corpus', 'C02', stream + '_*.json'))):
        with open(p) as f:
            out.append(json.load(f))
    return out


# ----------------------------------------------------------------------------------------------
# refuted-theorem witnesses replayed on the implementation
# ----------------------------------------------------------------------------------------------
def w_lone_half():
    """sliver level: a NodeSliver with image_ref but no image_type, through the flat converters"""
    I = Impl.get()
    G = I.ABCPropertyGraph
    s = I.NodeSliver()
    s.set_name('n1')
    s.set_image_ref('img')
    d = G.node_sliver_to_graph_properties_dict(s)
    back = G.node_sliver_from_graph_properties_dict(d)
    return (back.image_ref is None), {'original image_ref': 'img', 'graph properties': sorted(d),
                                      'rebuilt image_ref': back.image_ref}


class C02(Check):
    pid = 'C02'
    translators = ['gen_propmap']
    model_targets = ['Model/Sliver2Check.vo']
    streams = [Flat(), Deep(), Element()]
    trusted_base = [
        'Coq 8.16.1 kernel (coqc), vm_compute for the correspondence evaluation and the finite table obligations; no native_compute',
        'Print Assumptions of every C02 theorem: Closed under the global context (no axioms)',
        'translator/gen_propmap.py + translator/pyast.py (Python ast -> Gen/PropMap.v), fail-closed on any unrecognised statement shape',
        'harness/c02.py + harness/common.py (generators, abstraction of sliver objects to tokens, cases writer)',
        'modelled not verified: field values are opaque tokens (canonical to_json()/json/str text of the object); their codecs '
        '(Capacities/Labels/.../Tags/Delegations from_json(to_json(x)), JSONData constructors, ipaddress, json.dumps/loads of '
        'node_map, enum names) are C03 business and enter as injective token transformers, checked by the tie on every run',
        'modelled not verified: Python dict semantics (insertion order, update, pop), the json module at text level '
        '(JSON values are modelled, the printer/parser are not), the fragment of the NetworkX backend used by the graph route '
        '(add_node, add_link, get_node_properties, get_first_neighbor, check_node_unique, update_node_properties, unset_node_property)',
        'sliver names are assumed to match NAME_REGEX (C16 business); exception classes and messages are not compared, only that one was raised',
    ]
    assumptions = [
        'slivers are instances of the five concrete sliver classes built through their setters (CompositeNodeSliver is outside the domain)',
        'well-formed slivers: name set, sibling names unique, components typed, no empty child dictionaries, values of the setter\'s type; '
        'a value object with nothing set reads back as absent (documented by C03, not counted as a deviation)',
        'graph route: every sliver has its own node id; only a DedicatedPort interface owns child interfaces, one level deep '
        '(what add_child_interface allows and build_deep_interface_sliver descends into)',
        'the graph route is checked on the in-memory (NetworkX) backend only',
    ]

    def refuted_witnesses(self):
        return [('C02_lone_image_half_lost_in_conversion', w_lone_half)]

    def extra_static(self, ctx):
        """the generators know a value for every setter the library's classes expose (a new setter without a
        generator would silently stay untested)"""
        bad = []
        try:
            for k in KINDS:
                for p in vocabulary(k):
                    try:
                        sl = Impl.get().CLS[k]()
                        sl.set_property(p, build_value(gen_value(random.Random(1), k, p)))
                    except Exception as e:
                        bad.append('%s.%s: %r' % (k, p, e))
        except Exception as e:
            bad.append(repr(e))
        return [{'name': 'generator_covers_every_setter', 'ok': not bad, 'detail': bad[:10]}]


if __name__ == '__main__':
    sys.exit(main(C02()))

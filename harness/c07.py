"""C07 - every model the topology API builds satisfies the published graph rules.

Streams:
  histories : random histories of building calls through the REAL API (both flavours, library-generated and
              caller-supplied ids, ~20% invalid calls); after every call the canonical snapshot, the outcome,
              the ids drawn and the view contents go to Coq, where (a) the model's step from the previous
              snapshot must reproduce outcome and snapshot, (b) wf_b is evaluated on the snapshot and compared
              with the Python oracle's verdict, (c) the model's views must list the ids the real views listed.
  clean     : the same with the calls that trigger the recorded findings avoided: longer histories that must
              satisfy every rule after every call.
Independent oracle: harness/topo7_oracle.py (rules transliterated over extract_graph) + view exactness.
"""
import sys, os, re, json, glob
from . import common
from .common import *
from . import topo7_driver as D
from . import topo7_oracle as O
from . import topo7_gen as GN

EXN = {'TopologyException': 'ETopology', 'PropertyGraphQueryException': 'EQuery', 'ValueError': 'EValue',
       'AssertionError': 'EAssert', 'CatalogException': 'ECatalog', 'RuntimeError': 'ERuntime',
       'AttributeError': 'EAttribute', 'KeyError': 'EKey', 'TypeError': 'EType', 'IndexError': 'EIndex',
       'noref': 'ENoRef'}
CLS = {'NetworkNode': 0, 'Component': 1, 'NetworkService': 2, 'ConnectionPoint': 3, 'Link': 4, 'CompositeNode': 5}
REL = {'has': 0, 'connects': 1}
REF = {'node': 'RNode', 'comp': 'RComp', 'ns': 'RNS', 'link': 'RLink', 'iface': 'RIface'}
PN = {'name': 'PName', 'site': 'PSite', 'capacities': 'PCapacities', 'labels': 'PLabels', 'details': 'PDetails',
      'type_node': 'PTypeNode', 'names': 'PNames'}
UN = {'name': 'UName', 'type': 'UType', 'site': 'USite', 'capacities': 'UCapacities', 'labels': 'ULabels',
      'details': 'UDetails', 'nosuch': 'UNoSuch'}

_VOCAB = {}
_FLAGS = {}


def lib_flags():
    """Which of the proposed repairs the library under test carries, read off its source (so that the same model
    follows the code before and after a repair lands): rename check (C07-3), remove_link refuses a peering link
    (C07-4), _disconnect_from_services skips removed interfaces (C07-5), connect_interface checks the derived
    names (C07-6), add_component_sliver validates the new ids first (C09-6), connect_interface removes the port when
    the link cannot be made (C09-7), peer refuses a self-peering and a taken link name (C07-7), set_properties(name=)
    checks the scope (C07-8)."""
    if 'f' not in _FLAGS:
        import inspect
        from fim.user.model_element import ModelElement
        from fim.user.node import Node
        from fim.user.topology import Topology
        from fim.user.network_service import NetworkService
        from fim.graph.abc_property_graph import ABCPropertyGraph
        src = inspect.getsource
        _FLAGS['f'] = {
            'rename_check': hasattr(ModelElement, '_check_name_unique') and '_check_name_unique' in src(Node.set_property),
            'link_refuse': 'ServicePort' in src(Topology.remove_link),
            'skip_gone': 'node_exists' in src(Topology._disconnect_from_services),
            'connect_names': 'check_node_unique' in src(NetworkService.connect_interface),
            'comp_precheck': 'pairwise distinct' in src(ABCPropertyGraph.add_component_sliver),
            'connect_undo': 'remove_cp_and_links' in src(NetworkService.connect_interface),
            'peer_checks': 'check_node_unique' in src(NetworkService.peer),
            'props_check': '_check_name_unique' in src(Node.set_properties),
            'link_cp_only': 'isinstance(i, Interface)' in src(Topology.add_link),
            'disc_peering': 'peering port' in src(NetworkService.disconnect_interface),
            'parent_first': (lambda s_: 0 <= s_.find('get_node_properties(node_id=parent_node_id)') < s_.find('self.add_node('))(
                src(ABCPropertyGraph.add_interface_sliver)),
        }
    return _FLAGS['f']


def vocab():
    if 'v' not in _VOCAB:
        _VOCAB['v'] = O.load_vocab(common.REPO)
    return _VOCAB['v']


defect_classes = O.defect_classes
post_classes = O.post_classes


class Histories(Stream):
    name = 'histories'
    header = ('From Coq Require Import String List NArith Bool.\nImport ListNotations.\n'
              'From FIM Require Import Base.Str Model.T7Graph Model.T7Ops Model.T7WF Model.T7Check.\nLocal Open Scope N_scope.\n')
    case_type = 'tcase'
    check_fn = 'check_history'
    shard = 16
    avoid = ()
    invalid = 0.2
    _cache = {}
    rule = ('histories of <= 40 building calls (add/remove node, component, storage, facility, switch, service, port '
            'mirror, node-level service, link; connect/disconnect; peer/unpeer; add/remove sub-interface; rename; '
            'set/unset property) on ExperimentTopology and SubstrateTopology, ~20% invalid; every call is one '
            'refinement check + one wf_b evaluation + one view comparison; non-trivial = history with >= 5 calls that '
            'changed the model; distinct by (flavour, op kinds, outcomes)')

    def sizes(self, tier):
        return (80, 30) if tier == 'quick' else (800, 40)

    def gen(self, rng, tier):
        # lazily: the framework's search loop checks its time budget between cases
        n, maxops = self.sizes(tier)
        for k in range(n):
            fl = 'exp' if rng.random() < 0.55 else 'sub'
            nops = rng.choice([maxops, maxops, maxops // 2, maxops // 3 + 2])
            # one history in four runs on the per-graph in-memory store (NetworkXGraphImporterDisjoint): same API, same model
            store = 'disjoint' if rng.random() < 0.25 else None
            case, steps = GN.gen_history(rng, fl, nops, vocab(), invalid=self.invalid, avoid=self.avoid, store=store)
            # the generating run IS a run of the real API on this history: keep its observations
            if len(self._cache) > 4000:
                self._cache.clear()
            self._cache[json.dumps(case)] = steps
            yield case

    def corpus(self):
        out = []
        for p in sorted(glob.glob(os.path.join(common.VERIF, 'corpus', 'C07', '*.json'))):
            with open(p) as f:
                c = json.load(f)
            if c.get('stream', 'histories') == self.name:
                out.append(c['case'])
        return out

    # ---------------------------------------------------------------------------- implementation
    def observe(self, case):
        steps = self._cache.pop(json.dumps(case), None) or D.run_history(case)
        v = vocab()
        pre = {'nodes': [], 'edges': []}
        for op, st in zip(case['ops'], steps):
            st['rules'] = [list(x) for x in O.rule_violations(st['snap'], v)]
            st['viewv'] = [list(x) for x in O.view_violations(st['snap'], st['views'])]
            st['classes'] = defect_classes(pre, op) + post_classes(st['snap'])
            pre = st['snap']
        return {'steps': steps}

    # ---------------------------------------------------------------------------- Coq term
    def to_coq(self, case, obs):
        tbl, idx = [], {}

        def code(s):
            if s not in idx:
                idx[s] = len(tbl)
                tbl.append(s)
            return idx[s]

        def s(x):
            return '(s %d)' % code(x)

        def so(x):
            return 'None' if x is None else '(Some %s)' % s(x)

        def sl(l):
            return '[' + '; '.join(s(x) for x in l) + ']'

        def slo(l):
            return 'None' if l is None else '(Some %s)' % sl(l)

        def ref(r):
            return '(%s %s)' % (REF[r[0]], s(r[1]))
        code('')

        def opterm(op, _out=None):
            k, a = op[1], op[2:]
            if k == 'add_node':
                return 'OAddNode %s %s %s' % (s(a[0]), so(a[1]), s(a[3]))
            if k == 'remove_node':
                return 'ORemoveNode %s' % s(a[0])
            if k == 'add_component':
                return 'OAddComponent %s %s %s %s %s %s %s' % (s(a[0]), s(a[1]), so(a[2]), s(a[3]), s(a[4]), so(a[5]), slo(a[6]))
            if k == 'add_storage':
                return 'OAddStorage %s %s %s' % (s(a[0]), s(a[1]), so(a[2]))
            if k == 'remove_component':
                return 'ORemoveComponent %s %s' % (s(a[0]), s(a[1]))
            if k == 'add_facility':
                return 'OAddFacility %s %s %s' % (s(a[0]), so(a[1]), slo(a[3]))
            if k == 'remove_facility':
                return 'ORemoveFacility %s' % s(a[0])
            if k == 'add_switch':
                return 'OAddSwitch %s %s %d%%nat' % (s(a[0]), so(a[1]), a[3])
            if k == 'remove_switch':
                return 'ORemoveSwitch %s' % s(a[0])
            if k == 'add_ns':
                return 'OAddNS %s %s %s %s' % (s(a[0]), so(a[1]), s(a[2]), sl(a[3]))
            if k == 'add_pm':
                return 'OAddPM %s %s %s' % (s(a[0]), so(a[1]), s(a[3]))
            if k == 'remove_ns':
                return 'ORemoveNS %s' % s(a[0])
            if k == 'node_add_ns':
                return 'ONodeAddNS %s %s %s %s' % (s(a[0]), s(a[1]), so(a[2]), s(a[3]))
            if k == 'node_remove_ns':
                return 'ONodeRemoveNS %s %s' % (s(a[0]), s(a[1]))
            if k == 'add_link':
                return 'OAddLink %s %s %s %s' % (s(a[0]), so(a[1]), s(a[2]), sl(a[3]))
            if k == 'remove_link':
                return 'ORemoveLink %s' % s(a[0])
            if k in ('connect', 'disconnect', 'peer', 'unpeer'):
                return '%s %s %s' % ({'connect': 'OConnect', 'disconnect': 'ODisconnect', 'peer': 'OPeer', 'unpeer': 'OUnpeer'}[k], s(a[0]), s(a[1]))
            if k == 'stale_add_iface' and _out == 'noref':
                return 'ODisconnect %s %s' % (s(''), s(''))      # the driver kept no such handle (shrunk history): a call that cannot be made
            if k == 'stale_add_iface':
                return 'OStaleAddIface %s %s %s %s' % (s(a[0]), s(a[1]), so(a[2]), s(a[3]))
            if k == 'add_sub':
                return 'OAddSub %s %s %s %s' % (s(a[0]), s(a[1]), so(a[2]), cbool(a[3] is not None))
            if k == 'remove_sub':
                return 'ORemoveSub %s %s' % (s(a[0]), s(a[1]))
            if k == 'rename':
                return 'ORename %s %s' % (ref(a[0]), s(a[1]))
            if k == 'set_prop':
                return 'OSetProp %s %s %s' % (ref(a[0]), PN[a[1]], s(str(a[2])))
            if k == 'unset_prop':
                return 'OUnsetProp %s %s' % (ref(a[0]), UN[a[1]])
            raise ValueError(op)

        def n_(x):
            return '%d' % code(x)

        def no(x):
            return 'None' if x is None else '(Some %d)' % code(x)

        def snap(sn):
            ns = ['(%s,%d,%s,%s,%s)' % (n_(str(n[0])), CLS.get(n[1], 6), no(n[2]), no(n[3]), cbool(n[4])) for n in sn['nodes']]
            es = ['(%s,%s,%d)' % (n_(str(e[0])), n_(str(e[1])), REL.get(e[2], 2)) for e in sn['edges']]
            return '([%s], [%s])' % ('; '.join(ns), '; '.join(es))

        def vw(v):
            if 'error' in v:
                return 'None'
            return '(Some (%s))' % ', '.join('[' + '; '.join(n_(x) for x in v[k]) + ']' for k in
                                             ('nodes', 'facilities', 'links', 'network_services', 'interface_list'))
        steps = []
        for op, st in zip(case['ops'], obs['steps']):
            out = 'None' if st['out'] == 'ok' else '(Some %s)' % EXN.get(st['out'], 'EOtherExn')
            steps.append('mkStep (%s) %s %s %s %s %s %s' % (opterm(op, st['out']), sl(st['drawn']), sl(st['hint']), out, snap(st['snap']), vw(st['views']),
                                                        cbool(bool(st['rules']))))
        body = '[' + ';\n     '.join(steps) + ']'
        tb = '[' + '; '.join(cstr(x).replace('%N', '') for x in tbl) + ']'
        fl = lib_flags()
        flags = 'mkFlags ' + ' '.join(cbool(fl[k]) for k in (
            'rename_check', 'link_refuse', 'skip_gone', 'connect_names', 'comp_precheck', 'connect_undo', 'peer_checks',
            'props_check', 'link_cp_only', 'disc_peering', 'parent_first'))
        return '((%s, %s), %s,\n   fun s => %s)' % (cbool(case['flavour'] == 'sub'), flags, tb, body)

    # ---------------------------------------------------------------------------- independent oracle
    def failures(self, case, obs):
        """all failures of the history as (signature, text)"""
        out = []
        for k, (op, st) in enumerate(zip(case['ops'], obs['steps'])):
            cl = ','.join(st['classes'])
            # view exactness is a claim about models that satisfy the rules
            for tag, txt in (st['rules'] or st['viewv']):
                out.append(('%s after %s [%s]' % (tag, op[1], cl), 'step %d %s -> %s: %s' % (k, json.dumps(op), st['out'], txt)))
        return out

    def oracle(self, case, obs):
        fs = self.failures(case, obs)
        if not fs:
            return None
        known = [k for k in known_for('C07') if k.get('signature')]
        for sig, txt in fs:
            if not any(re.search(k['signature'], sig) for k in known):
                return sig + ' :: ' + txt
        return fs[0][0] + ' :: ' + fs[0][1]

    def known_signature(self, case, obs, why):
        return why or ''

    def key(self, case, obs):
        changed = 0
        pre = None
        for st in obs['steps']:
            if st['snap'] != pre and st['out'] == 'ok':
                changed += 1
            pre = st['snap']
        if changed < 5:
            return None
        return stable_hash([case['flavour'], case.get('store'), [op[1] for op in case['ops']], [st['out'] for st in obs['steps']]])

    def histogram(self, cases, obs):
        h = {'calls': 0, 'exp': 0, 'sub': 0, 'outcomes': {}, 'kinds': {}, 'max_nodes': 0, 'rule_violations': {},
             'view_violations': 0, 'generated_ids': 0, 'caller_ids': 0}
        for c, o in zip(cases, obs):
            h[c['flavour']] += 1
            for op, st in zip(c['ops'], o['steps']):
                h['calls'] += 1
                h['kinds'][op[1]] = h['kinds'].get(op[1], 0) + 1
                oc = 'ok' if st['out'] == 'ok' else st['out']
                h['outcomes'][oc] = h['outcomes'].get(oc, 0) + 1
                h['max_nodes'] = max(h['max_nodes'], len(st['snap']['nodes']))
                h['generated_ids'] += len(st['drawn'])
                for tag, _ in st['rules']:
                    t = tag.split(':')[0] + ':' + tag.split(':')[1]
                    h['rule_violations'][t] = h['rule_violations'].get(t, 0) + 1
                h['view_violations'] += 1 if st['viewv'] else 0
        n = max(h['calls'], 1)
        h['invalid_fraction'] = round(1 - h['outcomes'].get('ok', 0) / n, 3)
        return h

    def describe(self, case, obs):
        return {'flavour': case['flavour'], 'store': case.get('store'), 'ops': case['ops'][:6], 'outcomes': [s['out'] for s in obs['steps']][:6],
                'final_nodes': len(obs['steps'][-1]['snap']['nodes']) if obs['steps'] else 0}

    def shrink(self, case, failing):
        ops = list(case['ops'])
        # drop everything after the first failing prefix, then delta-debug single ops
        lo = 1
        for k in range(1, len(ops) + 1):
            if failing(dict(case, ops=ops[:k])):
                ops = ops[:k]
                break
        changed = True
        while changed and len(ops) > 1:
            changed = False
            for i in range(len(ops) - 2, -1, -1):
                cand = ops[:i] + ops[i + 1:]
                if failing(dict(case, ops=cand)):
                    ops = cand
                    changed = True
        return dict(case, ops=ops)


class Clean(Histories):
    name = 'clean'
    avoid = ('rename_dup', 'strand', 'unpeer_bad')
    invalid = 0.12
    rule = ('as histories, with the calls that trigger the recorded findings avoided (no L2Multisite, no colliding '
            'rename, no duplicate facility interface names, removals only of unpeered structure): every rule must hold '
            'after every call of the whole history')

    def sizes(self, tier):
        return (40, 40) if tier == 'quick' else (350, 40)


class C07(Check):
    pid = 'C07'
    translators = ['gen_rules']
    model_targets = ['Model/T7Check.vo']
    streams = [Histories(), Clean()]
    trusted_base = [
        'Coq 8.16.1 kernel (coqc), vm_compute for the correspondence evaluation; no native_compute',
        'translator/gen_rules.py + translator/pyast.py (rules JSON, enum classes, component catalogue, NAME_REGEX, ViewOnlyDict -> Gen/Rules.v), fail-closed',
        'harness/c07.py, topo7_driver.py, topo7_gen.py, topo7_oracle.py + harness/common.py (history generation, fresh-handle resolution through the views, snapshot of storage.extract_graph, string table, cases.v writer)',
        'eleven behaviour flags read off the source of the library under test (lib_flags: repairs C07-3..10, C09-6, C09-7, a4fc126 present or not)',
        'modelled not verified: networkx Graph (one undirected edge per pair, remove_node drops incident edges), networkx_query search_nodes as a filter, dict insertion/overwrite, uuid4 (replaced by a deterministic source in the harness process), re.fullmatch of the NAME_REGEX character classes on ASCII names',
    ]
    assumptions = [
        'handles are obtained through the views right before each call (fresh); cached interface lists of long-lived handles are not modelled',
        'add_link / connect_interface are not handed ServicePort handles (add_link IS handed handles of other classes, disconnect_interface IS handed peering ports: recorded findings C07-9, C07-10)',
        'names are ASCII; property values other than name/type/Labels-presence are not part of the compared state',
        'single topology per store (isolation is C04)',
    ]

    def extra_static(self, ctx):
        """ViewOnlyDict exposes no mutator: static (class body) and dynamic (every mutating call fails, model unchanged)"""
        res = []
        try:
            with D.patched_uuid():
                topo = D.new_topology('exp')
                D.apply_op(topo, 'exp', [1, 'add_node', 'n1', None, 'S1', 'VM'])
                D.apply_op(topo, 'exp', [2, 'add_facility', 'f1', None, 'S1', None])
                before = D.snapshot(topo)
                bad = []
                for vname in ('nodes', 'facilities', 'links', 'network_services'):
                    v = getattr(topo, vname)
                    for mut in ('__setitem__', '__delitem__', 'pop', 'popitem', 'clear', 'update', 'setdefault'):
                        if hasattr(v, mut):
                            bad.append('%s.%s exists' % (vname, mut))
                    for attempt in (lambda: v.__class__.__setitem__(v, 'x', 1), lambda: exec('v["x"] = 1', {'v': v}),
                                    lambda: exec('del v["n1"]', {'v': v})):
                        try:
                            attempt()
                            bad.append('%s accepted a mutation' % vname)
                        except (TypeError, AttributeError, KeyError):
                            pass
                if not isinstance(topo.interface_list, tuple):
                    bad.append('interface_list is not a tuple')
                if D.snapshot(topo) != before:
                    bad.append('model changed by view access')
            res.append({'name': 'viewonly_no_mutator_dynamic', 'ok': not bad, 'detail': bad})
        except Exception as e:
            res.append({'name': 'viewonly_no_mutator_dynamic', 'ok': False, 'detail': repr(e)})
        return res

    def refuted_witnesses(self):
        """the ..._refuted theorems speak of the library without the proposed repairs (flags_off): a witness is
        replayed only while the library under test lacks the repair that removes it"""
        st = self.streams[0]
        fl = lib_flags()
        out = []
        for name, (flag, case) in WITNESSES.items():
            if flag is not None and fl[flag]:
                continue

            def fn(case=case, name=name):
                obs = st.observe(case)
                fs = st.failures(case, obs)
                return (bool(fs), {'case': case, 'failures': fs[:3]})
            out.append((name, fn))
        return out


# concrete witnesses of the ..._refuted theorems of Properties/C07.v, replayed on the implementation each run
WITNESSES = {
    'C07_rename_refuted': ('rename_check', {'flavour': 'exp', 'ops': [
        [1, 'add_node', 'n1', 'a', 'S1', 'VM'], [2, 'add_node', 'n2', 'b', 'S1', 'VM'], [3, 'rename', ['node', 'b'], 'n1']]}),
    'C07_remove_link_refuted': ('link_refuse', {'flavour': 'exp', 'ops': [
        [1, 'add_node', 'n1', 'a', 'S1', 'VM'],
        [2, 'add_component', 'a', 'c1', 'c', 'SharedNIC', 'ConnectX-6', 's', ['i']],
        [3, 'add_ns', 's1', 'b', 'L2Bridge', ['i']],
        [4, 'remove_link', 'n1-c1-p1-link']]}),
    'C07_add_link_non_interfaces_refuted': ('link_cp_only', {'flavour': 'exp', 'ops': [
        [1, 'add_node', 'n1', 'a', 'S1', 'VM'], [2, 'add_node', 'n2', 'b', 'S1', 'VM'],
        [3, 'add_link', 'l1', 'l', 'Patch', ['a', 'b']]]}),
    'C07_disconnect_peering_port_refuted': ('disc_peering', {'flavour': 'exp', 'ops': [
        [1, 'add_ns', 'sA', 'a', 'L2Bridge', []], [2, 'add_ns', 'sB', 'b', 'L2Bridge', []], [3, 'peer', 'a', 'b'],
        [4, 'disconnect', 'a', 'g3x0']]}),
    'C07_stale_add_interface_refuted': ('parent_first', {'flavour': 'exp', 'ops': [
        [1, 'add_ns', 's1', 'a', 'L2Bridge', []], [2, 'remove_ns', 's1'], [3, 'stale_add_iface', 'a', 'p1', 'x', 'TrunkPort']]}),
    'C07_set_properties_name_refuted': ('props_check', {'flavour': 'exp', 'ops': [
        [1, 'add_node', 'n1', 'a', 'S1', 'VM'], [2, 'add_node', 'n2', 'b', 'S1', 'VM'], [3, 'set_prop', ['node', 'b'], 'names', 'n1']]}),
    'C07_peer_self_refuted': ('peer_checks', {'flavour': 'exp', 'ops': [
        [1, 'add_ns', 's1', 'a', 'L2Bridge', []], [2, 'peer', 'a', 'a']]}),
    'C07_peer_link_name_refuted': ('peer_checks', {'flavour': 'exp', 'ops': [
        [1, 'add_node', 'n1', 'n', 'S1', 'VM'],
        [2, 'add_component', 'n', 'c1', 'c', 'SmartNIC', 'ConnectX-6', 's', ['i', 'j']],
        [3, 'add_ns', 's1', 'a', 'L2Bridge', []], [4, 'add_ns', 's2', 'b', 'L2Bridge', []],
        [5, 'add_link', 's1-s2-link', 'l', 'Patch', ['i', 'j']],
        [6, 'peer', 'a', 'b']]}),
    'C07_view_services_refuted': (None, {'flavour': 'sub', 'ops': [
        [1, 'add_node', 'n1', 'a', 'S1', 'VM'], [2, 'add_node', 'n2', 'b', 'S1', 'VM'],
        [3, 'node_add_ns', 'a', 'sv', 's1', 'OVS'], [4, 'node_add_ns', 'b', 'sv', 's2', 'OVS']]}),
}


if __name__ == '__main__':
    sys.exit(main(C07()))

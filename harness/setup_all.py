"""setup: regenerate all Gen files and build the full development (all .vo)."""
import sys, glob, os
from . import common
from .common import *

ALL_TRANSLATORS = sorted(os.path.basename(p)[:-3] for p in glob.glob(os.path.join(VERIF, 'translator', 'gen_*.py')))

if __name__ == '__main__':
    setup_repo_path()
    with Lock():
        regenerate(ALL_TRANSLATORS)
        ensure_makefile()
        ok, lg = make([p[:-2] + '.vo' for p in coq_sources()], timeout=3000)
    if not ok:
        print(lg[-3000:])
        print('setup: build incomplete (individual checks will report which obligations fail)')
    bad = grep_forbidden()
    if bad:
        print('forbidden constructs:', bad)
    sys.exit(0)

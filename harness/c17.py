"""C17 - sliver comparison reports exactly the differences between two slivers.

Slivers are built with the real sliver classes from JSON-able specs; the second version is an edited copy of
the first (single and combined edits, both directions, plus an identical copy).  The TopologyDiff the
implementation returns is canonicalised to (name, node_id[, flag value]) lists and
  (a) compared inside Coq with Model/Diff17.v evaluated on the same two trees,
  (b) judged by `expected()` below: the property restated over the two specs (key-set differences, flags
      exactly for what the edit script changed) - it knows neither the Coq model nor the implementation.
"""
import sys, copy, json
from . import common
from .common import *

KINDS = {'node': ('comps', 'svcs'), 'comp': ('svcs',), 'svc': ('ifs',), 'if': ('subs',), 'sub': ()}
CHILD_KIND = {'comps': 'comp', 'svcs': 'svc', 'ifs': 'if', 'subs': 'sub'}

# ----------------------------------------------------------------------------------------------
# interning (equality-only values -> N); injective, deterministic in order of first use
# ----------------------------------------------------------------------------------------------
_tab = {}


def intern(kind, v):
    t = _tab.setdefault(kind, {})
    if v not in t:
        t[v] = len(t) + 1
    return t[v]


_fields = {}


def fields():
    if not _fields:
        from fim.slivers.capacities_labels import Capacities, Labels
        _fields['lab'] = list(Labels().__dict__.keys())
        _fields['cap'] = list(Capacities().__dict__.keys())
    return _fields


def ud_value(ud):
    """the JSON VALUE a user-data spec carries: ['obj', v] -> v ; ['text', t] -> json.loads(t)"""
    if ud is None:
        return None
    return ud[1] if ud[0] == 'obj' else json.loads(ud[1])


def py_canon(v):
    """canonical form of a JSON value under PYTHON equality (what JSONData.__eq__ applies to the parsed blobs):
    True == 1 == 1.0, False == 0; dict order irrelevant (sort_keys at dump time)"""
    if isinstance(v, bool):
        return int(v)
    if isinstance(v, float):
        return int(v) if v == int(v) else ['__float__', repr(v)]
    if isinstance(v, list):
        return [py_canon(x) for x in v]
    if isinstance(v, dict):
        return {k: py_canon(x) for k, x in v.items()}
    return v


def json_canon(v):
    """canonical form under JSON-value equality, the reading of "equal-valued user data" taken for the property:
    numbers compare numerically (JSON has one number type: 1 and 1.0 are the same value), true/false are NOT numbers"""
    if isinstance(v, bool):
        return ['__bool__', v]
    if isinstance(v, float):
        return int(v) if v == int(v) else ['__float__', repr(v)]
    if isinstance(v, list):
        return [json_canon(x) for x in v]
    if isinstance(v, dict):
        return {k: json_canon(x) for k, x in v.items()}
    return v


def ud_token(ud):
    """what the model interns: the class of the value under the code's (Python) equality"""
    return json.dumps(py_canon(ud_value(ud)), sort_keys=True)


def ud_json_token(ud):
    return json.dumps(json_canon(ud_value(ud)), sort_keys=True)


UD_PY = [False]     # oracle switch: True = judge user data as Python == does (only to recognise finding C17-3)


# ----------------------------------------------------------------------------------------------
# building real slivers from specs
# ----------------------------------------------------------------------------------------------


def mk_cap(d):
    """round 7 (seed C17-13): a Capacities value of the given fields, built in one of three ways that give the same value
    (plain constructor; minus an all-zero value; plus and minus one core) - the way is a deterministic function of the
    fields, so both sides of a comparison can come out of arithmetic.  Observations and the model see field values only."""
    import zlib
    from fim.slivers.capacities_labels import Capacities
    c = Capacities(**d)
    way = zlib.crc32(json.dumps(d, sort_keys=True, default=str).encode()) % 3
    if way == 1:
        c = c - Capacities()
    elif way == 2:
        one = Capacities(core=1)
        c = (c + one) - one
    return c


def build(spec):
    from fim.slivers.network_node import NodeSliver, NodeType
    from fim.slivers.network_service import NetworkServiceSliver, NetworkServiceInfo, ServiceType
    from fim.slivers.interface_info import InterfaceSliver, InterfaceInfo, InterfaceType
    from fim.slivers.attached_components import ComponentSliver, AttachedComponentsInfo, ComponentType
    from fim.slivers.capacities_labels import Labels, Capacities
    from fim.slivers.json_data import UserData
    k = spec['k']
    if k == 'node':
        s = NodeSliver()
        s.set_type(NodeType[spec['type']])
    elif k == 'comp':
        s = ComponentSliver()
        s.set_type(ComponentType[spec['type']])
    elif k == 'svc':
        s = NetworkServiceSliver()
        s.set_type(ServiceType[spec['type']])
    else:
        s = InterfaceSliver()
        s.set_type(InterfaceType[spec['type']])
    s.set_name(spec['name'])
    s.node_id = spec['id']
    if spec['lab'] is not None:
        s.set_labels(Labels(**spec['lab']))
    if spec['cap'] is not None:
        s.set_capacities(mk_cap(spec['cap']))
    if spec['ud'] is not None:
        s.set_user_data(UserData(spec['ud'][1]))
    if k == 'node':
        if spec['comps'] is not None:
            aci = AttachedComponentsInfo()
            for c in spec['comps']:
                aci.add_device(build(c))
            s.attached_components_info = aci
    if k in ('node', 'comp'):
        if spec['svcs'] is not None:
            nsi = NetworkServiceInfo()
            for c in spec['svcs']:
                nsi.add_network_service(build(c))
            s.network_service_info = nsi
    if k == 'svc' and spec['ifs'] is not None:
        ii = InterfaceInfo()
        for c in spec['ifs']:
            ii.add_interface(build(c))
        s.interface_info = ii
    if k == 'if' and spec['subs'] is not None:
        ii = InterfaceInfo()
        for c in spec['subs']:
            ii.add_interface(build(c))
        s.interface_info = ii
    return s


def canon(d):
    """TopologyDiff -> JSON-able canonical form (sorted by name); None stays None"""
    if d is None:
        return None

    def ids(s):
        return sorted([[x.resource_name, x.node_id] for x in s], key=lambda p: (p[0], p[1] or ''))

    def idf(l):
        return sorted([[x.resource_name, x.node_id, f.value] for x, f in l], key=lambda p: (p[0], p[1] or '', p[2]))
    return {'added': [ids(getattr(d.added, n)) for n in ('nodes', 'components', 'services', 'interfaces')],
            'removed': [ids(getattr(d.removed, n)) for n in ('nodes', 'components', 'services', 'interfaces')],
            'modified': [idf(getattr(d.modified, n)) for n in ('nodes', 'components', 'services', 'interfaces')]}


def run_diff(x, y):
    try:
        return canon(x.diff(y))
    except Exception as e:
        return {'err': type(e).__name__}


def dump(s):
    """deep structural dump of a live sliver: every attribute the comparison reads (and the identity of the value
    objects), recursively through components / services / interfaces / sub-interfaces.  Compared before/after a
    diff call ("operands are not modified"); never stored."""
    if s is None:
        return None

    def fld(o):
        return None if o is None else (id(o), copy.deepcopy(o.__dict__))

    def cont(info, attr):
        if info is None:
            return None
        d = getattr(info, attr)
        out = {'oid': id(info), 'did': id(d), 'keys': list(d.keys()), 'kids': [dump(v) for v in d.values()]}
        if hasattr(info, 'by_type'):
            out['by_type'] = {str(k): [id(x) for x in v] for k, v in info.by_type.items()}
        return out
    d = {'oid': id(s), 'cls': type(s).__name__, 'name': s.resource_name, 'id': s.node_id, 'type': str(s.get_type()),
         'lab': fld(s.labels), 'cap': fld(s.capacities),
         'ud': None if s.user_data is None else (id(s.user_data), s.user_data._data),
         'attrs': sorted(s.__dict__.keys()),
         'scalars': {k: repr(v) for k, v in s.__dict__.items()
                     if v is None or isinstance(v, (str, int, float, bool)) or hasattr(v, 'name')}}
    if hasattr(s, 'attached_components_info'):
        d['comps'] = cont(s.attached_components_info, 'devices')
    if hasattr(s, 'network_service_info'):
        d['svcs'] = cont(s.network_service_info, 'network_services')
    if hasattr(s, 'interface_info'):
        d['ifs'] = cont(s.interface_info, 'interfaces')
    return d


class Probe:
    """runs diff calls, each TWICE on the same live pair, with deep snapshots of both operands around them"""

    def __init__(self):
        self.mutated = []
        self.unstable = []

    def diff(self, tag, x, y):
        before = (dump(x), dump(y))
        r1 = run_diff(x, y)
        mid = (dump(x), dump(y))
        r2 = run_diff(x, y)
        after = (dump(x), dump(y))
        if before != mid or mid != after:
            self.mutated.append(tag)
        if r1 != r2:
            self.unstable.append([tag, r1, r2])
        return r1


# ----------------------------------------------------------------------------------------------
# the property restated over the two specs (independent oracle)
# ----------------------------------------------------------------------------------------------

def norm_cap(c):
    return None if c is None else {k: v for k, v in c.items() if v != 0}


def own_flags(x, y):
    f = 0
    if x['lab'] != y['lab']:
        f |= 1
    if norm_cap(x['cap']) != norm_cap(y['cap']):
        f |= 2
    tok = ud_token if UD_PY[0] else ud_json_token
    if (x['ud'] is None) != (y['ud'] is None) or (x['ud'] is not None and tok(x['ud']) != tok(y['ud'])):
        f |= 4
    return f


def kids(x, attr):
    return {c['name']: c for c in (x.get(attr) or [])}


def ident(x):
    return [x['name'], x['id']]


def subs_differ(x, y):
    a, b = kids(x, 'subs'), kids(y, 'subs')
    return set(a) != set(b) or any(own_flags(a[k], b[k]) for k in a)


def if_differs(x, y):
    return own_flags(x, y) != 0 or subs_differ(x, y)


def svc_differs(x, y):
    a, b = kids(x, 'ifs'), kids(y, 'ifs')
    return own_flags(x, y) != 0 or set(a) != set(b) or any(if_differs(a[k], b[k]) for k in a)


def the_service(c):
    s = c.get('svcs') or []
    return s[0] if len(s) == 1 else None


def expected(x, y):
    """what x.diff(y) must report, or None"""
    k = x['k']
    added = [[], [], [], []]
    removed = [[], [], [], []]
    modified = [[], [], [], []]
    own = own_flags(x, y)

    def keydiff(attr, slot):
        a, b = kids(x, attr), kids(y, attr)
        added[slot] = sorted([ident(b[n]) for n in set(b) - set(a)], key=lambda p: (p[0], p[1] or ''))
        removed[slot] = sorted([ident(a[n]) for n in set(a) - set(b)], key=lambda p: (p[0], p[1] or ''))
        return [(a[n], b[n]) for n in sorted(set(a) & set(b))]
    if k == 'if':
        if own:
            modified[2].append(ident(x) + [own])      # the port itself is listed under modified.services
        for u, v in keydiff('subs', 3):
            f = own_flags(u, v)
            if f:
                modified[3].append(ident(u) + [f])
    elif k == 'svc':
        if own:
            modified[2].append(ident(x) + [own])
        for u, v in keydiff('ifs', 3):
            f = own_flags(u, v) | (8 if subs_differ(u, v) else 0)
            if f:
                modified[3].append(ident(u) + [f])
    else:
        if own:
            modified[0].append(ident(x) + [own])
        for u, v in keydiff('comps', 1):
            f = own_flags(u, v)
            if u['type'] == 'SmartNIC':
                su, sv = the_service(u), the_service(v)
                if (su is None) != (sv is None) or (su is not None and svc_differs(su, sv)):
                    f |= 8
            if f:
                modified[1].append(ident(u) + [f])
        for u, v in keydiff('svcs', 2):
            f = own_flags(u, v)
            if f:
                modified[2].append(ident(u) + [f])
    if not any(added) and not any(removed) and not any(modified):
        return None
    return {'added': added, 'removed': removed, 'modified': modified}


def wellformed(x):
    """distinct names per container; only DedicatedPorts have children; a SmartNIC has exactly one service"""
    for attr in KINDS[x['k']]:
        ch = x.get(attr) or []
        if len({c['name'] for c in ch}) != len(ch):
            return False
        if not all(wellformed(c) for c in ch):
            return False
    if x['k'] == 'if' and x['type'] != 'DedicatedPort' and (x.get('subs') or []):
        return False
    if x['k'] == 'comp' and x['type'] == 'SmartNIC' and len(x.get('svcs') or []) != 1:
        return False
    return True


def compatible(x, y):
    """elements present in both versions keep their type"""
    if x['type'] != y['type']:
        return False
    for attr in KINDS[x['k']]:
        a, b = kids(x, attr), kids(y, attr)
        if not all(compatible(a[n], b[n]) for n in set(a) & set(b)):
            return False
    return True


def spurious_only(x, y, got, exp):
    """True iff `got` differs from `exp` ONLY by SUB_INTERFACES raised on dedicated ports (common to both
    versions) whose own tracked properties changed while their sub-interfaces did not (finding C17-1)."""
    if x['k'] != 'svc' or got is None or 'err' in got:
        return False
    exp = exp or {'added': [[], [], [], []], 'removed': [[], [], [], []], 'modified': [[], [], [], []]}
    if got['added'] != exp['added'] or got['removed'] != exp['removed'] or got['modified'][:3] != exp['modified'][:3]:
        return False
    a, b = kids(x, 'ifs'), kids(y, 'ifs')
    g = {e[0]: e for e in got['modified'][3]}
    e_ = {e[0]: e for e in exp['modified'][3]}
    if set(g) != set(e_) or len(g) != len(got['modified'][3]):
        return False
    n = 0
    for name in g:
        if g[name] == e_[name]:
            continue
        u, v = a[name], b[name]
        if (g[name][:2] == e_[name][:2] and g[name][2] == e_[name][2] | 8 and u['type'] == 'DedicatedPort'
                and own_flags(u, v) != 0 and not subs_differ(u, v)):
            n += 1
        else:
            return False
    return n > 0


def judge(case, o):
    """None or text saying what part of the property the implementation's answers violate"""
    a, b = case['a'], case['b']
    if o.get('mutated'):
        return 'an operand was modified by diff(): ' + ','.join(o['mutated'])
    if o.get('unstable'):
        return 'the same pair compared again gave another answer: ' + json.dumps(o['unstable'][0])
    if not (wellformed(a) and wellformed(b) and compatible(a, b)):
        return None            # outside the quantified domain: only the correspondence is checked
    for tag in ('aa', 'adc'):
        if o[tag] is not None:
            return 'identical copy reported as different (%s): %s' % (tag, json.dumps(o[tag]))
    if o['an'] is not None:
        return 'diff(None) is not None'
    why = []
    boolnum = 0
    for tag, x, y in (('ab', a, b), ('ba', b, a)):
        exp = expected(x, y)
        if o[tag] != exp:
            UD_PY[0] = True
            try:
                exp_py = expected(x, y)
            finally:
                UD_PY[0] = False
            if o[tag] == exp_py:
                boolnum += 1
                continue
            if spurious_only(x, y, o[tag], exp):
                why.append('spurious-SUB_INTERFACES-on-port-with-own-property-change')
            else:
                why.append('%s: reported %s expected %s' % (tag, json.dumps(o[tag]), json.dumps(exp)))
    if why:
        if all(w.startswith('spurious-SUB_INTERFACES') for w in why):
            return 'spurious-SUB_INTERFACES-on-port-with-own-property-change only'
        return 'not exact: ' + ' | '.join(w for w in why)
    if boolnum:
        return 'userdata-bool-number-conflated only'
    ab, ba = o['ab'], o['ba']
    e4 = [[], [], [], []]
    if (ab['added'] if ab else e4) != (ba['removed'] if ba else e4) or \
            (ab['removed'] if ab else e4) != (ba['added'] if ba else e4):
        return 'added(old,new) is not removed(new,old)'
    return None


# ----------------------------------------------------------------------------------------------
# generator
# ----------------------------------------------------------------------------------------------
LAB_POOL = {'vlan': ['100', '101', '200', ['100', '101'], ['100']], 'ipv4': ['10.0.0.1', '10.0.0.2'],
            'local_name': ['p1', 'p2', 'HundredGigE0/0/0/5'], 'mac': ['00:11:22:33:44:55', '00:11:22:33:44:56'],
            'device_name': ['dev-a', 'dev-b'], 'bdf': ['0000:41:00.0', ['0000:41:00.0', '0000:41:00.1']],
            'ipv6': ['2001:db8::1'], 'asn': ['65000'], 'numa': ['0', '1']}
CAP_POOL = {'core': [0, 1, 2, 8], 'ram': [0, 4, 8], 'disk': [0, 10, 100], 'bw': [0, 1, 10, 100], 'unit': [0, 1, 2],
            'mtu': [0, 1500, 9000], 'burst_size': [0, 5]}
UD_POOL = [['obj', {}], ['obj', {'a': 1}], ['text', '{"a": 1}'], ['text', '{"a":1}'], ['obj', {'a': 1, 'b': [1, 2]}],
           ['obj', {'b': [1, 2], 'a': 1}], ['text', '{ "b": [1, 2], "a": 1 }'], ['obj', {'a': 2}], ['obj', [1, 2]],
           ['text', '[1,2]'], ['text', '"x"'], ['text', ' "x" '], ['text', 'null'], ['text', '{}'],
           ['obj', {'a': True}], ['obj', {'a': 1.0}], ['text', '{"a": 1.0}'], ['obj', {'a': 1.5}], ['text', '{"a": 1.50}'],
           ['obj', [True, 0]], ['text', '[1, false]'], ['obj', {'a': False}], ['obj', {'a': 0}], ['text', '{"a": 0.0}'],
           ['obj', {'fablib_data': {'mode': 'auto', 'addr': None}}],
           ['text', '{"fablib_data": {"addr": null, "mode": "auto"}}']]


def g_lab(rng):
    r = rng.random()
    if r < 0.35:
        return None
    if r < 0.42:
        return {}
    ks = rng.sample(sorted(LAB_POOL), rng.choice([1, 1, 2, 3]))
    return {k: copy.deepcopy(rng.choice(LAB_POOL[k])) for k in ks}


def g_cap(rng):
    r = rng.random()
    if r < 0.4:
        return None
    if r < 0.47:
        return {}
    ks = rng.sample(sorted(CAP_POOL), rng.choice([1, 2, 3]))
    return {k: rng.choice(CAP_POOL[k]) for k in ks}


def g_ud(rng):
    return None if rng.random() < 0.45 else copy.deepcopy(rng.choice(UD_POOL))


def g_base(rng, k, name, typ):
    nid = None if rng.random() < 0.08 else 'id-%s-%s' % (k, name)
    return {'k': k, 'name': name, 'id': nid, 'type': typ, 'lab': g_lab(rng), 'cap': g_cap(rng), 'ud': g_ud(rng)}


def g_container(rng, maker, names, lo=0, hi=3, p_none=0.15):
    if rng.random() < p_none:
        return None
    n = rng.randint(lo, min(hi, len(names)))
    return [maker(rng, nm) for nm in rng.sample(names, n)]


SUB_NAMES = ['s1', 'sub-2', 'p.3', 'v4']
IF_NAMES = ['p1', 'p2', 'port-3', 'eth4']
SVC_NAMES = ['svc1', 'svc2', 'ns-a', 'br.4']
COMP_NAMES = ['nic1', 'nic2', 'gpu1', 'nvme1', 'snic.5']


def g_sub(rng, name):
    return g_base(rng, 'sub', name, 'SubInterface')


def g_if(rng, name, dedicated=None):
    if dedicated is None:
        dedicated = rng.random() < 0.6
    x = g_base(rng, 'if', name, 'DedicatedPort' if dedicated else rng.choice(['SharedPort', 'AccessPort', 'TrunkPort', 'vInt']))
    if dedicated:
        x['subs'] = g_container(rng, g_sub, SUB_NAMES, 0, 3, 0.25)
    else:
        x['subs'] = None if rng.random() < 0.8 else []
    return x


def g_svc(rng, name, dedicated=None):
    x = g_base(rng, 'svc', name, rng.choice(['L2Bridge', 'L2STS', 'FABNetv4', 'OVS', 'PortMirror']))
    x['ifs'] = g_container(rng, lambda r, n: g_if(r, n, dedicated), IF_NAMES, 0, 3, 0.12)
    return x


def g_comp(rng, name):
    typ = rng.choice(['SmartNIC', 'SmartNIC', 'SharedNIC', 'GPU', 'NVME', 'FPGA'])
    x = g_base(rng, 'comp', name, typ)
    if typ == 'SmartNIC':
        x['svcs'] = [g_svc(rng, name + '-l2ovs', True)]
    elif typ == 'SharedNIC':
        x['svcs'] = [g_svc(rng, name + '-l2ovs', False)]
    else:
        x['svcs'] = None if rng.random() < 0.8 else []
    return x


def g_node(rng, name='node1'):
    x = g_base(rng, 'node', name, rng.choice(['VM', 'Server', 'Switch']))
    x['comps'] = g_container(rng, g_comp, COMP_NAMES, 0, 4, 0.12)
    x['svcs'] = g_container(rng, g_svc, SVC_NAMES, 0, 3, 0.2)
    return x


def walk(x, path=()):
    """all (path, sliver) of a tree; a path is a tuple of (attr, name) steps"""
    yield path, x
    for attr in KINDS[x['k']]:
        for c in (x.get(attr) or []):
            yield from walk(c, path + ((attr, c['name']),))


def at(x, path):
    for attr, name in path:
        nxt = [c for c in (x.get(attr) or []) if c['name'] == name]
        if not nxt:
            return None
        x = nxt[0]
    return x


MAKERS = {'comps': (g_comp, COMP_NAMES), 'svcs': (g_svc, SVC_NAMES), 'ifs': (g_if, IF_NAMES), 'subs': (g_sub, SUB_NAMES)}
EDITS = ['add', 'remove', 'lab', 'cap', 'ud', 'equal_ud', 'shuffle', 'none_empty', 'readd_same', 'new_id', 'add_lookalikes']

# families of DISTINCT (resource_name, node_id) identities that any concatenating / defaulting identity would conflate:
# one target string split at different '-' positions; the "NONE" default of __hash__ spelled out in a name or an id;
# node_id None vs '' vs 'NONE' (on different names, a dict holds each name once)
LOOKALIKES = [
    [('nic-1', 'ab12'), ('nic', '1-ab12')],
    [('xy-zz-7', 'ab12'), ('xy-zz', '7-ab12'), ('xy', 'zz-7-ab12')],
    [('pq-rs', None), ('pq', 'rs-NONE')],
    [('pq-rs', ''), ('pq', 'rs-NONE'), ('pq-rs-NONE', None)],
    [('NONE', 'NONE-NONE'), ('NONE-NONE', None), ('NONE-NONE-NONE', 'x')],
    [('ab.cd', 'NONE'), ('ab.cd-NONE', None)],
    [('ab cd', 'e-f'), ('ab cd-e', 'f')],
    [('p1', 'id-1'), ('p1-id', '1')],
]



def edit(rng, a, b, allow_shape=True):
    """apply one random edit to the copy b (equal_ud also touches a); returns the edit's name"""
    kind = rng.choice(EDITS)
    sites = [(p, s) for p, s in walk(b)]
    if rng.random() < 0.5:
        shallow = [(p, s) for p, s in sites if len(p) <= 1]
        p, s = rng.choice(shallow)
    else:
        p, s = rng.choice(sites)
    if kind in ('lab', 'cap', 'ud'):
        g = {'lab': g_lab, 'cap': g_cap, 'ud': g_ud}[kind]
        old = s[kind]
        for _ in range(4):
            s[kind] = g(rng)
            if s[kind] != old:
                break
        return kind + ':' + s['k']
    if kind == 'equal_ud':
        sa = at(a, p)
        if sa is None:
            return None
        v = rng.choice([{'a': 1, 'b': [1, 2]}, {'k': 'v'}, [1, 2, 3], {}])
        sa['ud'] = ['obj', copy.deepcopy(v)]
        s['ud'] = rng.choice([['text', json.dumps(v)], ['text', json.dumps(v, sort_keys=True, separators=(',', ':'))],
                              ['obj', dict(reversed(list(v.items()))) if isinstance(v, dict) else copy.deepcopy(v)]])
        return 'equal_ud:' + s['k']
    attrs = [t for t in KINDS[s['k']]]
    if s['k'] == 'comp':
        attrs = []                      # the service of a NIC is fixed by the catalogue; edits go below it
    if s['k'] == 'if' and s['type'] != 'DedicatedPort':
        attrs = []
    if not attrs or not allow_shape:
        return None
    attr = rng.choice(attrs)
    ch = s.get(attr)
    maker, names = MAKERS[attr]
    if kind == 'add_lookalikes':
        # several elements added in ONE edit whose (name, node_id) pairs are distinct but look alike
        fam = [x for x in rng.choice(LOOKALIKES)]
        if attr in ('svcs', 'comps'):
            fam = [(n.replace(' ', '_'), i) for n, i in fam]       # service names (also the derived NIC service) allow no blank
        assert len({n for n, _ in fam}) == len(fam)
        have = {c['name'] for c in (ch or [])}
        if any(n in have for n, _ in fam):
            return None
        parent = at(b, p[:-1]) if p else None
        new = []
        for n, i in fam:
            if s['k'] == 'svc':
                ded = (parent['type'] == 'SmartNIC') if (parent is not None and parent['k'] == 'comp') else None
                x = g_if(rng, n, ded)
            else:
                x = maker(rng, n)
            x['id'] = i
            new.append(x)
        s[attr] = (ch or []) + new
        if rng.random() < 0.3:
            rng.shuffle(s[attr])
        return 'add_lookalikes:' + attr
    if kind == 'add':
        free = [n for n in names + [n + 'x' for n in names] if n not in {c['name'] for c in (ch or [])}]
        if not free:
            return None
        if s['k'] == 'svc' and at(b, p[:-1]) is not None and at(b, p[:-1])['k'] == 'comp':
            new = g_if(rng, rng.choice(free), at(b, p[:-1])['type'] == 'SmartNIC')
        else:
            new = maker(rng, rng.choice(free))
        s[attr] = (ch or []) + [new]
        if rng.random() < 0.3:
            rng.shuffle(s[attr])
        return 'add:' + attr
    if kind == 'remove':
        if not ch:
            return None
        ch.pop(rng.randrange(len(ch)))
        if not ch and rng.random() < 0.3:
            s[attr] = None
        return 'remove:' + attr
    if kind == 'shuffle':
        if not ch or len(ch) < 2:
            return None
        rng.shuffle(ch)
        return 'shuffle:' + attr
    if kind == 'none_empty':
        if ch is None:
            s[attr] = []
        elif ch == []:
            s[attr] = None
        else:
            return None
        return 'none_empty:' + attr
    if kind == 'readd_same':            # remove an element and add one of the same name with fresh content
        if not ch:
            return None
        i = rng.randrange(len(ch))
        old = ch[i]
        if old['k'] == 'comp':
            return None
        new = maker(rng, old['name']) if old['k'] != 'if' else g_if(rng, old['name'], old['type'] == 'DedicatedPort')
        if new['type'] != old['type']:
            new['type'] = old['type']
        ch.pop(i)
        ch.append(new)
        return 'readd_same:' + attr
    if kind == 'new_id':
        if not ch:
            return None
        c = rng.choice(ch)
        c['id'] = (c['id'] or 'id') + '-v2'
        return 'new_id:' + attr
    return None


def g_case(rng, level):
    root = {'node': g_node, 'svc': lambda r: g_svc(r, 'svc1'), 'if': lambda r: g_if(r, 'p1', True)}[level](rng)
    a = root
    b = copy.deepcopy(a)
    done = []
    r = rng.random()
    n = 0 if r < 0.08 else 1 if r < 0.45 else rng.randint(2, 6)
    tries = 0
    while len(done) < n and tries < 40:
        tries += 1
        e = edit(rng, a, b)
        if e:
            done.append(e)
    return {'level': level, 'a': a, 'b': b, 'edits': done}


def g_malformed(rng):
    """outside the well-formedness domain: only the model/implementation agreement is checked here"""
    c = g_case(rng, 'node')
    a, b = c['a'], c['b']
    fault = rng.choice(['no_service_info', 'empty_services', 'two_services', 'plain_port_with_children',
                        'type_change', 'no_service_info_new'])
    comps_a = [x for x in (a.get('comps') or [])]
    comps_b = kids(b, 'comps')
    if not comps_a:
        a['comps'] = [g_comp(rng, 'nic1')]
        a['comps'][0]['type'] = 'SmartNIC'
        a['comps'][0]['svcs'] = [g_svc(rng, 'nic1-l2ovs', True)]
        b['comps'] = copy.deepcopy(a['comps']) + [z for z in (b.get('comps') or []) if z['name'] != 'nic1']
        comps_a = a['comps']
        comps_b = kids(b, 'comps')
    x = rng.choice(comps_a)
    y = comps_b.get(x['name'])
    if fault == 'no_service_info':
        for z in comps_a:
            if z['type'] == 'SmartNIC':
                z['svcs'] = None
        x['type'] = 'SmartNIC'
        x['svcs'] = None
    elif fault == 'no_service_info_new':
        if y is not None:
            x['type'] = 'SmartNIC'
            if not x.get('svcs'):
                x['svcs'] = [g_svc(rng, 'sx1', True)]
            y['svcs'] = None
            for z in comps_b.values():
                if z['type'] == 'SmartNIC' and not z.get('svcs'):
                    z['svcs'] = None
    elif fault == 'empty_services':
        for z in comps_a:
            if z['type'] == 'SmartNIC':
                z['svcs'] = []
        x['type'] = 'SmartNIC'
        x['svcs'] = []
    elif fault == 'two_services':
        x['type'] = 'SmartNIC'
        x['svcs'] = [g_svc(rng, 'sx1', True), g_svc(rng, 'sx2', True)]
        if y is not None:
            y['type'] = 'SmartNIC'
            y['svcs'] = copy.deepcopy(x['svcs'])
            if rng.random() < 0.6:
                y['svcs'].reverse()
            if rng.random() < 0.5:
                edit(rng, x['svcs'][0], y['svcs'][0])
    elif fault == 'plain_port_with_children':
        for p, s in walk(a):
            if s['k'] == 'if' and s['type'] != 'DedicatedPort':
                s['subs'] = [g_sub(rng, 's1')]
        for p, s in walk(b):
            if s['k'] == 'if' and s['type'] != 'DedicatedPort':
                s['subs'] = [g_sub(rng, rng.choice(['s1', 'sub-2']))]
    elif fault == 'type_change':
        if y is not None:
            y['type'] = 'GPU' if x['type'] == 'SmartNIC' else 'SmartNIC'
            if y['type'] == 'SmartNIC' and not y.get('svcs'):
                y['svcs'] = [g_svc(rng, 'sx1', True)]
    c['edits'] = c['edits'] + ['fault:' + fault]
    return c


# ----------------------------------------------------------------------------------------------
# Coq terms
# ----------------------------------------------------------------------------------------------

def c_props(x):
    f = fields()
    if x['lab'] is None:
        lab = 'None'
    else:
        lab = '(Some %s)' % clist(['(%s, %s)' % (cN(f['lab'].index(k)), cN(intern('labval', json.dumps(v))))
                                    for k, v in x['lab'].items()])
    if x['cap'] is None:
        cap = 'None'
    else:
        cap = '(Some %s)' % clist(['(%s, %s)' % (cN(f['cap'].index(k)), cZ(v)) for k, v in x['cap'].items() if v != 0])
    ud = 'None' if x['ud'] is None else '(Some %s)' % cN(intern('ud', ud_token(x['ud'])))
    return '(mkProps %s %s %s)' % (lab, cap, ud)


def c_name(x):
    return cN(intern('name', x['name']))


def c_id(i):
    return cN(0 if i is None else intern('id', i))


def c_kids(x, attr):
    ch = x.get(attr)
    return 'None' if ch is None else '(Some %s)' % clist([c_tree(c) for c in ch])


def c_tree(x):
    k = x['k']
    head = '%s %s %s' % (c_name(x), c_id(x['id']), c_props(x))
    if k == 'sub':
        return '(mkSub %s)' % head
    if k == 'if':
        return '(mkIf %s %s %s)' % (head, cbool(x['type'] == 'DedicatedPort'), c_kids(x, 'subs'))
    if k == 'svc':
        return '(mkSvc %s %s)' % (head, c_kids(x, 'ifs'))
    if k == 'comp':
        return '(mkComp %s %s %s)' % (head, cbool(x['type'] == 'SmartNIC'), c_kids(x, 'svcs'))
    return '(mkNode %s %s %s)' % (head, c_kids(x, 'comps'), c_kids(x, 'svcs'))


ERR = {'AttributeError': 1, 'IndexError': 2}


def c_obs(o):
    if o is None:
        return 'ONone'
    if 'err' in o:
        return '(ORaised %s)' % cN(ERR.get(o['err'], 0))
    ids = lambda l: clist(['(%s, %s)' % (cN(intern('name', n)), c_id(i)) for n, i in l])
    idf = lambda l: clist(['((%s, %s), %s)' % (cN(intern('name', n)), c_id(i), cN(f)) for n, i, f in l])
    return '(ODiff %s %s %s)' % (clist([ids(l) for l in o['added']]), clist([ids(l) for l in o['removed']]),
                                 clist([idf(l) for l in o['modified']]))


# ----------------------------------------------------------------------------------------------
# streams
# ----------------------------------------------------------------------------------------------

def size(x):
    return sum(1 for _ in walk(x))



KNOWN_WHY = ('topology-diff-deviations-only', 'userdata-bool-number-conflated only', 'spurious-SUB_INTERFACES-on-port')


def strictly_failing(stream):
    """shrinking predicate: the case still fails for a reason that is NOT one of the known deviations"""
    def f(c):
        w = stream.oracle(c, stream.observe(c))
        return w is not None and not any(k in w for k in KNOWN_WHY)
    return f


class DiffStream(Stream):
    level = 'node'
    header = ('From Coq Require Import List ZArith NArith Bool.\nImport ListNotations.\n'
              'From FIM Require Import Model.Diff17.\nOpen Scope N_scope.\n')
    shard = 150
    counts = (400, 8000)

    def gen(self, rng, tier):
        n = self.counts[0] if tier == 'quick' else self.counts[1]
        return [g_case(rng, self.level) for _ in range(n)]

    def corpus(self):
        out = []
        d = os.path.join(VERIF, 'corpus', 'C17')
        for p in sorted(glob.glob(os.path.join(d, '*.json'))):
            with open(p) as f:
                c = json.load(f)
            if c.get('stream') == self.name:
                out.append(c['case'])
        return out

    def observe(self, case):
        a, b = build(case['a']), build(case['b'])
        a2 = build(case['a'])
        pr = Probe()
        o = {'ab': pr.diff('ab', a, b), 'ba': pr.diff('ba', b, a), 'aa': pr.diff('aa', a, a2),
             'adc': pr.diff('adc', a, copy.deepcopy(a)), 'an': pr.diff('an', a, None)}
        # once more after everything else ran on the same long-lived objects
        again = {'ab': run_diff(a, b), 'ba': run_diff(b, a)}
        for t in again:
            if again[t] != o[t]:
                pr.unstable.append([t + '-late', o[t], again[t]])
        o['mutated'] = pr.mutated
        o['unstable'] = pr.unstable
        return o

    def to_coq(self, case, o):
        return '((%s,\n    %s),\n   (%s, %s, %s, %s))' % (c_tree(case['a']), c_tree(case['b']), c_obs(o['ab']), c_obs(o['ba']),
                                                        c_obs(o['aa']), c_obs(o['an']))

    def oracle(self, case, o):
        return judge(case, o)

    def key(self, case, o):
        if o['ab'] is None and o['ba'] is None:
            return None if not case['edits'] else stable_hash([case['a'], case['b']])
        return stable_hash([case['a'], case['b']])

    def describe(self, case, o):
        return {'edits': case['edits'], 'old': case['a'], 'new': case['b'], 'impl': {'old.diff(new)': o['ab'], 'new.diff(old)': o['ba']}}

    def histogram(self, cases, obs):
        h = {'no_difference': 0, 'raised': 0, 'edits': {}, 'flags_seen': {}, 'tree_size_avg': 0,
             'added_nonempty': 0, 'removed_nonempty': 0, 'equal_valued_userdata_distinct_text': 0}
        tot = 0
        for c, o in zip(cases, obs):
            tot += size(c['a'])
            for e in c['edits']:
                h['edits'][e] = h['edits'].get(e, 0) + 1
            ab = o['ab']
            if ab is None:
                h['no_difference'] += 1
            elif 'err' in ab:
                h['raised'] += 1
            else:
                h['added_nonempty'] += any(ab['added'])
                h['removed_nonempty'] += any(ab['removed'])
                for l in ab['modified']:
                    for e in l:
                        h['flags_seen'][str(e[2])] = h['flags_seen'].get(str(e[2]), 0) + 1
            for (p, s) in walk(c['a']):
                t = at(c['b'], p)
                if t is not None and s['ud'] is not None and t['ud'] is not None and s['ud'] != t['ud'] \
                        and ud_token(s['ud']) == ud_token(t['ud']):
                    h['equal_valued_userdata_distinct_text'] += 1
                    break
        h['tree_size_avg'] = round(tot / max(1, len(cases)), 1)
        return h

    def shrink(self, case, failing):
        failing = strictly_failing(self)
        case = copy.deepcopy(case)
        progress = True
        rounds = 0
        while progress and rounds < 30:
            progress = False
            rounds += 1
            # drop a child (by name) from both versions
            for p, s in list(walk(case['a'])) + list(walk(case['b'])):
                if not p:
                    continue
                c2 = copy.deepcopy(case)
                for side in ('a', 'b'):
                    par = at(c2[side], p[:-1])
                    if par is not None and par.get(p[-1][0]):
                        par[p[-1][0]] = [c for c in par[p[-1][0]] if c['name'] != p[-1][1]]
                if c2 != case and failing(c2):
                    case = c2
                    progress = True
                    break
            if progress:
                continue
            # forget a tracked property on both sides
            for p, s in list(walk(case['a'])) + list(walk(case['b'])):
                for fld in ('lab', 'cap', 'ud'):
                    c2 = copy.deepcopy(case)
                    for side in ('a', 'b'):
                        t = at(c2[side], p)
                        if t is not None:
                            t[fld] = None
                    if c2 != case and failing(c2):
                        case = c2
                        progress = True
                        break
                if progress:
                    break
        case['edits'] = ['(shrunk)']
        return case


class NodeS(DiffStream):
    name = 'node'
    level = 'node'
    case_type = '(node * node) * (obs * obs * obs * obs)'
    check_fn = 'check_node'
    counts = (450, 9000)
    rule = ('NodeSliver trees (components > services > ports > sub-interfaces, node-level services) built with the real '
            'sliver classes; new = copy edited by 0-6 edits (add/remove/re-add component, service, interface, sub-interface; '
            'change labels/capacities/user data anywhere; equal-valued user data as distinct objects/texts; reorder; '
            'None<->empty container; new node_id); old.diff(new), new.diff(old), old.diff(copy), old.diff(None); '
            'non-trivial = at least one edit; distinct by (old,new)')


_variant = {}


def service_variant():
    """which transcription of NetworkServiceSliver.diff the implementation under test shows: 'current'
    (finding C17-1: witness still fails) or 'fixed' (proposed_fixes/C17-1.patch behaviour); probed once per run"""
    if 'v' not in _variant:
        still, _ = replay_port_flag_witness()
        _variant['v'] = 'current' if still else 'fixed'
    return _variant['v']


class SvcS(DiffStream):
    name = 'service'
    level = 'svc'
    case_type = '(svc * svc) * (obs * obs * obs * obs)'

    @property
    def check_fn(self):
        return 'check_svc' if service_variant() == 'current' else 'check_svc_fixed'
    counts = (350, 7000)
    rule = 'same for NetworkServiceSliver trees (ports, sub-interfaces)'


class IfS(DiffStream):
    name = 'interface'
    level = 'if'
    case_type = '(iface * iface) * (obs * obs * obs * obs)'
    check_fn = 'check_iface'
    counts = (200, 4000)
    rule = 'same for InterfaceSliver trees (a dedicated port and its sub-interfaces)'


class MalformedS(DiffStream):
    name = 'malformed'
    level = 'node'
    case_type = '(node * node) * (obs * obs * obs * obs)'
    check_fn = 'check_node'
    counts = (150, 3000)
    rule = ('node trees OUTSIDE the well-formedness domain (SmartNIC without / with an empty / with two service(s), '
            'children under a non-dedicated port, component type changed): the model must predict the raised '
            'exception class or the reported diff; the property oracle is silent here')

    def gen(self, rng, tier):
        n = self.counts[0] if tier == 'quick' else self.counts[1]
        return [g_malformed(rng) for _ in range(n)]


# ----------------------------------------------------------------------------------------------
# histories on long-lived sliver objects (edit in place, diff, edit more, diff again, undo, diff)
# ----------------------------------------------------------------------------------------------
CONT = {'comps': ('attached_components_info', 'devices', 'add_device', 'remove_device'),
        'svcs': ('network_service_info', 'network_services', 'add_network_service', 'remove_network_service'),
        'ifs': ('interface_info', 'interfaces', 'add_interface', 'remove_interface'),
        'subs': ('interface_info', 'interfaces', 'add_interface', 'remove_interface')}


def spec_of(s, k):
    """the spec a LIVE sliver currently corresponds to (dict order as it is in the object)"""
    x = {'k': k, 'name': s.resource_name, 'id': s.node_id, 'type': s.get_type().name,
         'lab': None if s.labels is None else {f: copy.deepcopy(v) for f, v in s.labels.__dict__.items() if v is not None},
         'cap': None if s.capacities is None else {f: v for f, v in s.capacities.__dict__.items() if v != 0},
         'ud': None if s.user_data is None else ['text', s.user_data._data]}
    for attr in KINDS[k]:
        info = getattr(s, CONT[attr][0])
        x[attr] = None if info is None else [spec_of(c, CHILD_KIND[attr]) for c in getattr(info, CONT[attr][1]).values()]
    return x


def same_value(x, y, fld):
    if fld == 'ud':
        return (x is None) == (y is None) and (x is None or (x[0] == 'text' and x == y))
    if fld == 'cap':
        return norm_cap(x) == norm_cap(y) and (x is None) == (y is None)
    return x == y


def morph(obj, new):
    """bring a live sliver to the state described by spec `new`, IN PLACE, through the mutators of the sliver and
    container classes (set_labels/..., add_device/remove_device, add_network_service/..., add_interface/...)"""
    from fim.slivers.network_service import NetworkServiceInfo
    from fim.slivers.interface_info import InterfaceInfo
    from fim.slivers.attached_components import AttachedComponentsInfo
    from fim.slivers.capacities_labels import Labels, Capacities
    from fim.slivers.json_data import UserData
    k = new['k']
    cur = spec_of(obj, k)
    obj.node_id = new['id']
    if not same_value(cur['lab'], new['lab'], 'lab'):
        obj.set_labels(None if new['lab'] is None else Labels(**new['lab']))
    if not same_value(cur['cap'], new['cap'], 'cap'):
        obj.set_capacities(None if new['cap'] is None else mk_cap(new['cap']))
    if not same_value(cur['ud'], new['ud'], 'ud'):
        obj.set_user_data(None if new['ud'] is None else UserData(new['ud'][1]))
    for attr in KINDS[k]:
        iattr, dattr, add, rem = CONT[attr]
        want = new.get(attr)
        info = getattr(obj, iattr)
        if want is None:
            setattr(obj, iattr, None)
            continue
        if info is None:
            info = {'comps': AttachedComponentsInfo, 'svcs': NetworkServiceInfo, 'ifs': InterfaceInfo,
                    'subs': InterfaceInfo}[attr]()
            setattr(obj, iattr, info)
        d = getattr(info, dattr)
        wanted = {c['name']: c for c in want}
        for name in list(d.keys()):
            if name not in wanted or d[name].get_type().name != wanted[name]['type']:
                getattr(info, rem)(name)
        for c in want:
            if c['name'] in d:
                morph(d[c['name']], c)
            else:
                getattr(info, add)(build(c))


def g_history(rng, level):
    root = {'node': g_node, 'svc': lambda r: g_svc(r, 'svc1')}[level](rng)
    a = root
    b = copy.deepcopy(a)
    steps = []
    kinds = []
    for _ in range(rng.randint(2, 5)):
        a, b = copy.deepcopy(a), copy.deepcopy(b)
        done = []
        tries = 0
        while len(done) < rng.choice([1, 1, 2]) and tries < 20:
            tries += 1
            e = edit(rng, a, b)
            if e:
                done.append(e)
        if rng.random() < 0.15:
            a, b = b, a             # the roles swap: what was the new version is now the old one
            done.append('swap')
        steps.append([a, b])
        kinds.append(done)
    steps.append([copy.deepcopy(a), copy.deepcopy(a)])      # undo everything: the copy is again identical
    kinds.append(['undo'])
    return {'level': level, 'start': root, 'steps': steps, 'edits': kinds}


class HistoryS(DiffStream):
    """two LONG-LIVED slivers edited in place step by step; after every step both directions are compared (twice),
    with snapshots; the last step undoes all edits"""
    name = 'history'
    level = 'node'
    case_type = 'list ((node * node) * (obs * obs * obs * obs))'
    check_fn = 'check_node_history'
    counts = (100, 2500)
    shard = 50
    rule = ('two long-lived NodeSliver trees edited IN PLACE through the sliver/container mutators for 2-5 steps (same edit '
            'vocabulary, sometimes swapping old/new), compared after every step in both directions, each call twice, deep '
            'snapshots of both operands around every call; the final step undoes all edits and must report nothing; the Coq '
            'terms are re-read from the live objects; non-trivial = every history; distinct by content')

    def gen(self, rng, tier):
        n = self.counts[0] if tier == 'quick' else self.counts[1]
        return [g_history(rng, self.level) for _ in range(n)]

    def observe(self, case):
        k = case['start']['k']
        A, B = build(case['start']), build(case['start'])
        out = []
        pr = Probe()
        for i, (sa, sb) in enumerate(case['steps']):
            morph(A, sa)
            morph(B, sb)
            a, b = spec_of(A, k), spec_of(B, k)
            o = {'a': a, 'b': b, 'ab': pr.diff('ab@%d' % i, A, B), 'ba': pr.diff('ba@%d' % i, B, A),
                 'aa': pr.diff('aa@%d' % i, A, build(a)), 'adc': None, 'an': pr.diff('an@%d' % i, A, None)}
            out.append(o)
        return {'steps': out, 'mutated': pr.mutated, 'unstable': pr.unstable}

    def to_coq(self, case, o):
        return clist(['((%s,\n    %s),\n   (%s, %s, %s, %s))' % (c_tree(st['a']), c_tree(st['b']), c_obs(st['ab']), c_obs(st['ba']),
                                                                  c_obs(st['aa']), c_obs(st['an'])) for st in o['steps']])

    def oracle(self, case, o):
        if o['mutated']:
            return 'an operand was modified by diff(): ' + ','.join(o['mutated'])
        if o['unstable']:
            return 'the same pair compared again gave another answer: ' + json.dumps(o['unstable'][0])
        for i, st in enumerate(o['steps']):
            why = judge({'a': st['a'], 'b': st['b']}, st)
            if why:
                return 'step %d (%s): %s' % (i, ','.join(case['edits'][i]), why)
        last = o['steps'][-1]
        if last['ab'] is not None or last['ba'] is not None:
            return 'after undoing every edit a difference is still reported: ' + json.dumps([last['ab'], last['ba']])
        return None

    def key(self, case, o):
        return stable_hash([case['start'], case['steps']])

    def describe(self, case, o):
        return {'edits_per_step': case['edits'], 'start': case['start'],
                'impl': [{'old.diff(new)': st['ab'], 'new.diff(old)': st['ba']} for st in o['steps']]}

    def histogram(self, cases, obs):
        h = {'steps_total': 0, 'steps_with_difference': 0, 'final_undo_none': 0, 'edits': {}}
        for c, o in zip(cases, obs):
            h['steps_total'] += len(o['steps'])
            h['steps_with_difference'] += sum(1 for st in o['steps'] if st['ab'] is not None)
            h['final_undo_none'] += o['steps'][-1]['ab'] is None
            for es in c['edits']:
                for e in es:
                    h['edits'][e] = h['edits'].get(e, 0) + 1
        return h

    def shrink(self, case, failing):
        failing = strictly_failing(self)
        case = copy.deepcopy(case)
        i = 0
        while i < len(case['steps']) - 1 and len(case['steps']) > 2:
            c2 = copy.deepcopy(case)
            del c2['steps'][i]
            del c2['edits'][i]
            if failing(c2):
                case = c2
            else:
                i += 1
        return case


# ----------------------------------------------------------------------------------------------
# Topology.diff on ExperimentTopology pairs built through the public API (copy = serialize/load, then edit)
# ----------------------------------------------------------------------------------------------
# Topology.diff needs two Cypher queries (Neo4jPropertyGraph.get_graph_diff / get_graph_property_diff); there is no
# Neo4j server here and the NetworkX backend raises "Not implementable".  The harness stands in for exactly these two
# methods with a Python evaluation of the query text as read in Model/TopoDiff17.v (modelled not verified), pinned by
# a hash of their source: an edit of the queries makes the static obligation `topology-query-pin` fail (fail closed).
QUERY_PIN = '203cec2fd8a4df68b6bf5dbf4a166fabbb6fe18f'   # sha1 of the two method sources the stand-in was written against
CLASSES = ('NetworkNode', 'Component', 'NetworkService', 'ConnectionPoint')
TPROPS = ('Labels', 'Capacities', 'UserData')


def query_source_hash():
    import inspect, hashlib as _h
    from fim.graph.neo4j_property_graph import Neo4jPropertyGraph as NG
    src = inspect.getsource(NG.get_graph_diff) + inspect.getsource(NG.get_graph_property_diff)
    return _h.sha1(src.encode()).hexdigest()


def class_nodes(gm, label):
    out = []
    for i in gm.get_all_nodes_by_class(label=label):
        _, p = gm.get_node_properties(node_id=i)
        d = dict(p)
        d['NodeID'] = i
        out.append(d)
    return out


def standin_graph_diff(self, other_graph, label):
    A, B = class_nodes(self, label), class_nodes(other_graph, label)
    if not A or not B:          # MATCH .. WITH n MATCH ..: no row to aggregate
        return [], []
    AN, BN = {x['NodeID'] for x in A}, {x['NodeID'] for x in B}
    return [x for x in A if x['NodeID'] not in BN], [x for x in B if x['NodeID'] not in AN]


def standin_graph_property_diff(self, other_graph, label):
    A, B = class_nodes(self, label), class_nodes(other_graph, label)
    rows = []
    for prop in TPROPS:          # three one-row subqueries, UNION (duplicate rows removed), the code reads row 0
        ns, n1s = [], []
        for n in A:
            for n1 in B:
                if n['NodeID'] != n1['NodeID']:
                    continue
                x, y = n.get(prop), n1.get(prop)
                if (x is not None and y is not None and x != y) or (x is not None and y is None) or (x is None and y is not None):
                    ns.append(n)
                    n1s.append(n1)
        if (ns, n1s) not in rows:
            rows.append((ns, n1s))
    return rows[0]


def install_standin():
    from fim.graph.networkx_property_graph import NetworkXPropertyGraph as NX
    if getattr(NX, '_c17_standin', False):
        return
    NX.get_graph_diff = standin_graph_diff
    NX.get_graph_property_diff = standin_graph_property_diff
    NX._c17_standin = True


MODELS = {'SmartNIC': 'SmartNIC_ConnectX_6', 'SharedNIC': 'SharedNIC_ConnectX_6', 'GPU': 'GPU_RTX6000', 'NVME': 'NVME_P4510'}
T_LAB = [None, {'local_name': 'Bob'}, {'local_name': 'Henry'}, {'ipv4': '10.0.0.1'}, {'ipv4': ['10.0.0.1', '10.0.0.2']}]
T_CAP = [None, {'core': 2}, {'core': 4, 'ram': 8}, {'bw': 10}, {'unit': 1}]
T_UD = [None, ['obj', {'a': 1}], ['text', '{"a": 1}'], ['obj', {'a': 1, 'b': 2}], ['obj', {'k': [1, 2]}]]


def g_topo(rng):
    nodes = []
    for i in range(rng.choice([1, 2, 2, 3])):
        comps = []
        if rng.random() < 0.8:
            for j in range(rng.choice([1, 1, 2, 3])):
                comps.append({'name': 'c%d%d' % (i, j), 'kind': rng.choice(['SmartNIC', 'SharedNIC', 'GPU', 'NVME', 'SmartNIC']),
                              'children': rng.choice([0, 0, 1, 2])})
        nodes.append({'name': 'Node%d' % i, 'site': rng.choice(['RENC', 'UKY']), 'comps': comps})
    svcs = []
    if rng.random() < 0.7:
        svcs.append({'name': 'br0', 'k': rng.choice([1, 2, 3])})
    return {'nodes': nodes, 'svcs': svcs}


T_EDITS = ['set', 'set', 'set', 'set', 'add_node', 'remove_node', 'add_comp', 'remove_comp', 'add_svc', 'remove_svc',
           'add_child', 'remove_child', 'set_pair']


def g_topo_case(rng):
    base = g_topo(rng)
    r = rng.random()
    n = 0 if r < 0.08 else 1 if r < 0.4 else rng.randint(2, 5)
    edits = [{'op': rng.choice(T_EDITS), 'pick': rng.randrange(10 ** 6), 'prop': rng.choice(['lab', 'cap', 'ud']),
              'val': rng.randrange(10 ** 6)} for _ in range(n)]
    return {'level': 'topo', 'base': base, 'edits': edits}


def build_topo(base):
    import fim.user as f
    t = f.ExperimentTopology()
    for n in base['nodes']:
        nd = t.add_node(name=n['name'], site=n['site'])
        for c in n['comps']:
            comp = nd.add_component(name=c['name'], model_type=f.ComponentModelType[MODELS[c['kind']]])
            if c['kind'] == 'SmartNIC':
                for k in range(c['children']):
                    from fim.slivers.capacities_labels import Labels
                    comp.interface_list[0].add_child_interface(name='%s-ch%d' % (c['name'], k), labels=Labels(vlan=str(100 + k)))
    for sv in base['svcs']:
        ports = free_ports(t)[:sv['k']]
        if ports:
            t.add_network_service(name=sv['name'], nstype=f.ServiceType.L2Bridge, interfaces=ports)
    return t


def free_ports(t):
    out = []
    for nd in t.nodes.values():
        for c in nd.components.values():
            for i in c.interface_list:
                try:
                    if not i.get_peers():
                        out.append(i)
                except Exception:
                    pass
    return out


def elements(t):
    """every element of a topology that carries labels/capacities/user data, in a deterministic order"""
    out = []
    for nd in t.nodes.values():
        out.append(nd)
        for c in nd.components.values():
            out.append(c)
            out.extend(c.interface_list)
            for i in c.interface_list:
                try:
                    out.extend(i.interface_list)
                except Exception:
                    pass
    for sv in t.network_services.values():
        out.append(sv)
        out.extend(sv.interface_list)
    return out


def apply_topo_edit(t, e, done):
    import fim.user as f
    from fim.slivers.capacities_labels import Labels, Capacities
    from fim.slivers.json_data import UserData
    op, pick, val = e['op'], e['pick'], e['val']

    def setprop(el, prop, v):
        if prop == 'lab':
            el.labels = None if v is None else Labels(**v)
        elif prop == 'cap':
            el.capacities = None if v is None else mk_cap(v)
        else:
            el.user_data = None if v is None else UserData(v[1])
    try:
        if op in ('set', 'set_pair'):
            els = elements(t)
            if not els:
                return
            el = els[pick % len(els)]
            pool = {'lab': T_LAB, 'cap': T_CAP, 'ud': T_UD}[e['prop']]
            setprop(el, e['prop'], copy.deepcopy(pool[val % len(pool)]))
            if op == 'set_pair':      # labels AND another property of the same element
                setprop(el, 'lab', copy.deepcopy(T_LAB[1 + val % (len(T_LAB) - 1)]))
            done.append('%s:%s:%s' % (op, type(el).__name__, e['prop']))
        elif op == 'add_node':
            nd = t.add_node(name='New%d' % (pick % 50), site='RENC')
            if val % 2:
                nd.add_component(name='nc%d' % (pick % 50), model_type=f.ComponentModelType.SmartNIC_ConnectX_6)
            done.append(op)
        elif op == 'remove_node':
            names = list(t.nodes.keys())
            if names:
                t.remove_node(name=names[pick % len(names)])
                done.append(op)
        elif op == 'add_comp':
            nds = list(t.nodes.values())
            if nds:
                kind = ['GPU', 'SmartNIC', 'SharedNIC', 'NVME'][val % 4]
                nds[pick % len(nds)].add_component(name='x%d' % (pick % 97), model_type=f.ComponentModelType[MODELS[kind]])
                done.append(op + ':' + kind)
        elif op == 'remove_comp':
            cs = [(nd, c) for nd in t.nodes.values() for c in nd.components.keys()]
            if cs:
                nd, c = cs[pick % len(cs)]
                nd.remove_component(name=c)
                done.append(op)
        elif op == 'add_svc':
            ports = free_ports(t)
            if ports:
                t.add_network_service(name='ns%d' % (pick % 97), nstype=f.ServiceType.L2Bridge, interfaces=ports[:1 + val % 2])
                done.append(op)
        elif op == 'remove_svc':
            names = list(t.network_services.keys())
            if names:
                t.remove_network_service(name=names[pick % len(names)])
                done.append(op)
        elif op == 'add_child':
            ded = [i for i in elements(t) if type(i).__name__ == 'Interface' and str(i.type) == 'DedicatedPort']
            if ded:
                ded[pick % len(ded)].add_child_interface(name='k%d' % (pick % 97), labels=Labels(vlan=str(200 + pick % 50)))
                done.append(op)
        elif op == 'remove_child':
            ch = [(i, c) for i in elements(t) if type(i).__name__ == 'Interface' and str(i.type) == 'DedicatedPort'
                  for c in i.interface_list]
            if ch:
                i, c = ch[pick % len(ch)]
                i.remove_child_interface(name=c.name)
                done.append(op)
    except Exception as ex:
        done.append('%s!%s' % (op, type(ex).__name__))


def flat_view(t):
    """per class: [NodeID, Name, Labels, Capacities, UserData (stored strings or None), parent NodeID]"""
    from fim.user.node import Node
    from fim.user.component import Component
    from fim.user.network_service import NetworkService
    from fim.user.interface import Interface
    cls_of = {'NetworkNode': Node, 'Component': Component, 'NetworkService': NetworkService, 'ConnectionPoint': Interface}
    out = {}
    for label in CLASSES:
        rows = []
        for d in class_nodes(t.graph_model, label):
            parent = None
            if label != 'NetworkNode':
                try:
                    pe = t.get_parent_element(cls_of[label](name=d['Name'], node_id=d['NodeID'], topo=t))
                    parent = pe.node_id if pe is not None else None
                except Exception:
                    parent = None
            rows.append([d['NodeID'], d['Name'], d.get('Labels'), d.get('Capacities'), d.get('UserData'), parent])
        out[label] = rows
    return out


def canon_topo(d):
    def ids(s):
        return sorted([[x.name, x.node_id] for x in s], key=lambda p: p[1])

    def idf(l):
        return sorted([[x.name, x.node_id, fl.value] for x, fl in l], key=lambda p: p[1])
    return {'added': [ids(getattr(d.added, n)) for n in ('nodes', 'components', 'services', 'interfaces')],
            'removed': [ids(getattr(d.removed, n)) for n in ('nodes', 'components', 'services', 'interfaces')],
            'modified': [idf(getattr(d.modified, n)) for n in ('nodes', 'components', 'services', 'interfaces')]}


def run_tdiff(x, y):
    try:
        return canon_topo(x.diff(y))
    except Exception as e:
        return {'err': type(e).__name__}


SLOT = {'NetworkNode': 0, 'Component': 1, 'NetworkService': 2, 'ConnectionPoint': 3}


def t_expected(va, vb, t1=False, t2=False):
    """the statement over the two flat views: added/removed = NodeID-set differences per class (children of an added/
    removed parent are left to the parent, as documented), modified = exact flags of what differs.
    t1/t2: the same with the known deviation T1 (a class empty on one side yields nothing) / T2 (only elements whose
    labels differ are looked at) applied - used ONLY to recognise the known findings precisely."""
    def only(x, y, label):
        if t1 and ((not x[label]) or (not y[label])):
            return []
        ys = {r[0] for r in y[label]}
        return [r for r in x[label] if r[0] not in ys]

    def excl(view, other):
        nodes, comps = only(view, other, 'NetworkNode'), only(view, other, 'Component')
        nss, ifs = only(view, other, 'NetworkService'), only(view, other, 'ConnectionPoint')
        nid = {r[0] for r in nodes}
        ex_c = {r[0] for r in comps if r[5] in nid}
        ex_s = {r[0] for r in nss if r[5] is not None and r[5] in (nid | ex_c)}
        sid = {r[0] for r in nss}
        ex_i = {r[0] for r in ifs if r[5] in sid}
        srt = lambda l: sorted([[r[1], r[0]] for r in l], key=lambda p: p[1])
        return [srt(nodes), srt([r for r in comps if r[0] not in ex_c]), srt([r for r in nss if r[0] not in ex_s]),
                srt([r for r in ifs if r[0] not in ex_i])]
    mod = [[], [], [], []]
    for label in CLASSES:
        b = {r[0]: r for r in vb[label]}
        for r in va[label]:
            if r[0] in b:
                q = b[r[0]]
                fl = (1 if r[2] != q[2] else 0) | (2 if r[3] != q[3] else 0) | (4 if r[4] != q[4] else 0)
                if fl and not (t2 and not (fl & 1)):
                    mod[SLOT[label]].append([r[1], r[0], fl])
        mod[SLOT[label]].sort(key=lambda p: p[1])
    return {'added': excl(vb, va), 'removed': excl(va, vb), 'modified': mod}


def t_deviation(va, vb, got, exp):
    """the smallest set of known-deviation tags that explains got != exp COMPLETELY, or None"""
    for tags in (('T1',), ('T2',), ('T1', 'T2')):
        if got == t_expected(va, vb, t1='T1' in tags, t2='T2' in tags):
            return set(tags)
    return None


class TopoS(Stream):
    name = 'topology'
    header = ('From Coq Require Import List ZArith NArith Bool.\nImport ListNotations.\n'
              'From FIM Require Import Model.Diff17 Model.TopoDiff17.\nOpen Scope N_scope.\n')
    case_type = '(topo * topo) * (obs * obs * obs)'
    check_fn = 'check_topo'
    shard = 100
    counts = (80, 1500)
    rule = ('ExperimentTopology pairs built through the public API (add_node/add_component/add_network_service/'
            'add_child_interface), copy = serialize + load under a new graph id, then 0-5 edits on the copy (set/unset labels, '
            'capacities, user data on nodes/components/services/interfaces; add/remove node, component, service, '
            'sub-interface); old.diff(new), new.diff(old), old.diff(second copy), each twice with graph snapshots; the two '
            'Cypher queries are answered by the pinned stand-in; non-trivial = at least one applied edit; distinct by flat views')

    def gen(self, rng, tier):
        n = self.counts[0] if tier == 'quick' else self.counts[1]
        return [g_topo_case(rng) for _ in range(n)]

    def corpus(self):
        return [c for c in (topo_witness_case(1), topo_witness_case(2))]

    def observe(self, case):
        import uuid
        import fim.user as f
        install_standin()
        a = build_topo(case['base'])
        gs = a.serialize()
        b = f.ExperimentTopology()
        b.load(graph_string=gs, new_graph_id=str(uuid.uuid4()))
        a2 = f.ExperimentTopology()
        a2.load(graph_string=gs, new_graph_id=str(uuid.uuid4()))
        done = []
        for e in case['edits']:
            apply_topo_edit(b, e, done)
        va, vb = flat_view(a), flat_view(b)
        o = {'va': va, 'vb': vb, 'applied': done, 'mutated': [], 'unstable': []}
        for tag, x, y in (('ab', a, b), ('ba', b, a), ('aa', a, a2)):
            r1 = run_tdiff(x, y)
            r2 = run_tdiff(x, y)
            if r1 != r2:
                o['unstable'].append(tag)
            o[tag] = r1
        if flat_view(a) != va or flat_view(b) != vb:
            o['mutated'].append('graphs')
        for t in (a, b, a2):
            try:
                t.graph_model.delete_graph()
            except Exception:
                pass
        return o

    def to_coq(self, case, o):
        def gn(r):
            tok = lambda kind, v: 'None' if v is None else '(Some %s)' % cN(intern(kind, v))
            return '(mkG %s %s %s %s %s %s)' % (cN(intern('gid', r[0])), cN(intern('name', r[1])), tok('tlab', r[2]),
                                                tok('tcap', r[3]), tok('tud', r[4]),
                                                'None' if r[5] is None else '(Some %s)' % cN(intern('gid', r[5])))

        def tp(v):
            return '(mkTopo %s %s %s %s)' % (clist([gn(r) for r in v['NetworkNode']]), clist([gn(r) for r in v['Component']]),
                                             clist([gn(r) for r in v['NetworkService']]), clist([gn(r) for r in v['ConnectionPoint']]))

        def ob(d):
            if 'err' in d:
                return '(ORaised 0)'
            ids = lambda l: clist(['(%s, %s)' % (cN(intern('name', n)), cN(intern('gid', i))) for n, i in l])
            idf = lambda l: clist(['((%s, %s), %s)' % (cN(intern('name', n)), cN(intern('gid', i)), cN(fl)) for n, i, fl in l])
            return '(ODiff %s %s %s)' % (clist([ids(l) for l in d['added']]), clist([ids(l) for l in d['removed']]),
                                         clist([idf(l) for l in d['modified']]))
        return '((%s,\n    %s),\n   (%s, %s, %s))' % (tp(o['va']), tp(o['vb']), ob(o['ab']), ob(o['ba']), ob(o['aa']))

    def oracle(self, case, o):
        if o['mutated']:
            return 'Topology.diff modified one of the graphs'
        if o['unstable']:
            return 'Topology.diff on the same pair gave another answer the second time: ' + ','.join(o['unstable'])
        e0 = {'added': [[], [], [], []], 'removed': [[], [], [], []], 'modified': [[], [], [], []]}
        if o['aa'] != e0:
            return 'topology: identical copy reported as different: ' + json.dumps(o['aa'])[:400]
        tags = set()
        for tag, x, y in (('ab', o['va'], o['vb']), ('ba', o['vb'], o['va'])):
            exp = t_expected(x, y)
            if o[tag] != exp:
                dv = t_deviation(x, y, o[tag], exp)
                if dv is None:
                    return 'topology not exact (%s): reported %s expected %s' % (tag, json.dumps(o[tag])[:600], json.dumps(exp)[:600])
                tags |= dv
        if 'err' not in o['ab'] and 'err' not in o['ba']:
            if o['ab']['added'] != o['ba']['removed'] or o['ab']['removed'] != o['ba']['added']:
                return 'topology: added(old,new) is not removed(new,old)'
        if tags:
            return 'topology-diff-deviations-only ' + ','.join(sorted(tags))
        return None

    def key(self, case, o):
        return stable_hash([o['applied'], [[r[1:5] for r in o['va'][c]] for c in CLASSES],
                            [[r[1:5] for r in o['vb'][c]] for c in CLASSES]]) if o['applied'] else None

    def describe(self, case, o):
        return {'base': case['base'], 'edits_applied': o['applied'], 'impl': {'old.diff(new)': o['ab'], 'new.diff(old)': o['ba']}}

    def histogram(self, cases, obs):
        h = {'edits': {}, 'with_added': 0, 'with_removed': 0, 'with_modified': 0, 'graph_nodes_avg': 0, 'known_deviation_cases': 0}
        tot = 0
        for c, o in zip(cases, obs):
            for e in o['applied']:
                h['edits'][e] = h['edits'].get(e, 0) + 1
            tot += sum(len(o['va'][k]) for k in CLASSES)
            if 'err' not in o['ab']:
                h['with_added'] += any(o['ab']['added'])
                h['with_removed'] += any(o['ab']['removed'])
                h['with_modified'] += any(o['ab']['modified'])
            w = self.oracle(c, o)
            h['known_deviation_cases'] += bool(w and w.startswith('topology-diff-deviations-only'))
        h['graph_nodes_avg'] = round(tot / max(1, len(cases)), 1)
        return h

    def shrink(self, case, failing):
        failing = strictly_failing(self)
        case = copy.deepcopy(case)
        i = 0
        while i < len(case['edits']):
            c2 = copy.deepcopy(case)
            del c2['edits'][i]
            if failing(c2):
                case = c2
            else:
                i += 1
        return case


def topo_witness_case(k):
    if k == 1:      # wt1: a node whose capacities change while its labels do not
        return {'level': 'topo', 'base': {'nodes': [{'name': 'Node0', 'site': 'RENC', 'comps': []}], 'svcs': []},
                'edits': [{'op': 'set', 'pick': 0, 'prop': 'cap', 'val': 1}]}
    # wt2: the only component of the topology is removed
    return {'level': 'topo', 'base': {'nodes': [{'name': 'Node0', 'site': 'RENC',
                                                 'comps': [{'name': 'c00', 'kind': 'GPU', 'children': 0}]}], 'svcs': []},
            'edits': [{'op': 'remove_comp', 'pick': 0, 'prop': 'lab', 'val': 0}]}


def replay_topo_witness(k):
    c = topo_witness_case(k)
    o = TopoS().observe(c)
    exp = t_expected(o['va'], o['vb'])
    e0 = {'added': [[], [], [], []], 'removed': [[], [], [], []], 'modified': [[], [], [], []]}
    still = o['ab'] == e0 and exp != e0
    return still, {'case': c, 'implementation (through the query stand-in)': o['ab'], 'expected': exp}


# ----------------------------------------------------------------------------------------------
# the refuted witness of Proofs/Diff17Refuted.v, replayed on the implementation
# ----------------------------------------------------------------------------------------------

def witness_case():
    def port(vlan):
        return {'k': 'if', 'name': 'p1', 'id': 'id-p1', 'type': 'DedicatedPort', 'lab': {'vlan': vlan}, 'cap': None,
                'ud': None, 'subs': [{'k': 'sub', 'name': 's1', 'id': 'id-s1', 'type': 'SubInterface',
                                      'lab': {'vlan': '5'}, 'cap': None, 'ud': None}]}
    mk = lambda vlan: {'k': 'svc', 'name': 'svc1', 'id': 'id-svc1', 'type': 'L2Bridge', 'lab': None, 'cap': None,
                       'ud': None, 'ifs': [port(vlan)]}
    return {'level': 'svc', 'a': mk('100'), 'b': mk('101'), 'edits': ['lab:if']}


def replay_bool_number_witness():
    """user data {"a": true} -> {"a": 1}: a different JSON value, equal under Python =="""
    def nd(ud):
        return {'k': 'node', 'name': 'node1', 'id': 'id-node1', 'type': 'VM', 'lab': None, 'cap': None, 'ud': ud,
                'comps': None, 'svcs': None}
    c = {'level': 'node', 'a': nd(['obj', {'a': True}]), 'b': nd(['obj', {'a': 1}]), 'edits': ['ud:node']}
    o = NodeS().observe(c)
    still = o['ab'] is None and expected(c['a'], c['b']) is not None
    return still, {'case': c, 'implementation': o['ab'], 'expected': expected(c['a'], c['b'])}


def replay_port_flag_witness():
    c = witness_case()
    o = SvcS().observe(c)
    got = o['ab']
    still = got is not None and 'err' not in got and got['modified'][3] == [['p1', 'id-p1', 9]]
    return still, {'case': c, 'implementation': got,
                   'expected': expected(c['a'], c['b'])}


class C17(Check):
    pid = 'C17'
    translators = []
    model_targets = ['Model/Diff17.vo', 'Model/TopoDiff17.vo']
    streams = [NodeS(), SvcS(), IfS(), MalformedS(), HistoryS(), TopoS()]
    trusted_base = [
        'Coq 8.16.1 kernel (coqc), vm_compute for the correspondence evaluation; no native_compute',
        'Print Assumptions of every C17 theorem: Closed under the global context (no axioms)',
        'Model/Diff17.v is a hand transcription of NodeSliver.diff / NetworkServiceSliver.diff / InterfaceSliver.diff / '
        'prop_diff / _dict_diff / _dict_common; it is tied to the code only by the correspondence streams of harness/c17.py',
        'harness/c17.py + harness/common.py: building slivers from specs, canonicalising TopologyDiff to sorted '
        '(name, node_id[, flag value]) lists, interning of names / ids / label values / user-data VALUES '
        '(json.dumps(sort_keys) of the parsed blob) to N, sparse encoding of Labels (non-None fields) and Capacities (non-zero fields)',
        'modelled not verified: Python dict/set semantics (a dict as the list of its values with distinct keys), '
        'operator dispatch of != with None operands, truthiness of objects without __len__/__bool__, json value equality',
    ]
    assumptions = [
        'both slivers are of the same class (the code asserts it) and their children dictionaries are keyed by resource_name',
        'Labels/Capacities objects carry the current field list; capacity fields are ints; user data is interned by its class under Python == (True == 1 == 1.0), the equality JSONData.__eq__ applies; the oracle judges by JSON-value equality (booleans are not numbers) - the gap is known finding C17-3',
        'well-formed: only DedicatedPorts have child interfaces; a SmartNIC component has exactly one network service; an element present in both versions keeps its type',
    ]

    def refuted_witnesses(self):
        return [('C17_service_flags_exact_refuted', replay_port_flag_witness),
                ('C17_userdata_bool_number', replay_bool_number_witness),
                ('C17_topology_exact_refuted_silent_change', lambda: replay_topo_witness(1)),
                ('C17_topology_exact_refuted_last_of_class', lambda: replay_topo_witness(2))]

    def extra_static(self, ctx):
        v = service_variant()
        h = query_source_hash()
        pin = {'name': 'topology-query-pin', 'ok': h == QUERY_PIN,
               'detail': 'source of Neo4jPropertyGraph.get_graph_diff/get_graph_property_diff %s the text the query stand-in '
                         'of the topology stream evaluates (sha1 %s)' % ('is' if h == QUERY_PIN else 'is NOT', h)}
        return [pin, {'name': 'service-variant-probe', 'ok': True,
                 'detail': ('implementation shows finding C17-1 (witness fails): service stream compared with svc_diff'
                            if v == 'current' else
                            'implementation no longer shows finding C17-1: service stream compared with svc_diff_fixed, '
                            'full statement C17_service_exact_after_fix applies')}]


if __name__ == '__main__':
    sys.exit(main(C17()))

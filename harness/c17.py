"""C17 - sliver comparison reports exactly the differences between two slivers.

Slivers are built with the real sliver classes from JSON-able specs; the second version is an edited copy of
the first (single and combined edits, both directions, plus an identical copy).  The TopologyDiff the
implementation returns is canonicalised to (name, node_id[, flag value]) lists and
  (a) compared inside Coq with Model/Diff17.v evaluated on the same two trees,
  (b) judged by `expected()` below: the property restated over the two specs (key-set differences, flags
      exactly for what the edit script changed) - it knows neither the Coq model nor the implementation.
"""
import sys, copy, json
from . import common
from .common import *

KINDS = {'node': ('comps', 'svcs'), 'comp': ('svcs',), 'svc': ('ifs',), 'if': ('subs',), 'sub': ()}
CHILD_KIND = {'comps': 'comp', 'svcs': 'svc', 'ifs': 'if', 'subs': 'sub'}

# ----------------------------------------------------------------------------------------------
# interning (equality-only values -> N); injective, deterministic in order of first use
# ----------------------------------------------------------------------------------------------
_tab = {}


def intern(kind, v):
    t = _tab.setdefault(kind, {})
    if v not in t:
        t[v] = len(t) + 1
    return t[v]


_fields = {}


def fields():
    if not _fields:
        from fim.slivers.capacities_labels import Capacities, Labels
        _fields['lab'] = list(Labels().__dict__.keys())
        _fields['cap'] = list(Capacities().__dict__.keys())
    return _fields


def ud_value(ud):
    """the JSON VALUE a user-data spec carries: ['obj', v] -> v ; ['text', t] -> json.loads(t)"""
    if ud is None:
        return None
    return ud[1] if ud[0] == 'obj' else json.loads(ud[1])


def ud_token(ud):
    return json.dumps(ud_value(ud), sort_keys=True)


# ----------------------------------------------------------------------------------------------
# building real slivers from specs
# ----------------------------------------------------------------------------------------------

def build(spec):
    from fim.slivers.network_node import NodeSliver, NodeType
    from fim.slivers.network_service import NetworkServiceSliver, NetworkServiceInfo, ServiceType
    from fim.slivers.interface_info import InterfaceSliver, InterfaceInfo, InterfaceType
    from fim.slivers.attached_components import ComponentSliver, AttachedComponentsInfo, ComponentType
    from fim.slivers.capacities_labels import Labels, Capacities
    from fim.slivers.json_data import UserData
    k = spec['k']
    if k == 'node':
        s = NodeSliver()
        s.set_type(NodeType[spec['type']])
    elif k == 'comp':
        s = ComponentSliver()
        s.set_type(ComponentType[spec['type']])
    elif k == 'svc':
        s = NetworkServiceSliver()
        s.set_type(ServiceType[spec['type']])
    else:
        s = InterfaceSliver()
        s.set_type(InterfaceType[spec['type']])
    s.set_name(spec['name'])
    s.node_id = spec['id']
    if spec['lab'] is not None:
        s.set_labels(Labels(**spec['lab']))
    if spec['cap'] is not None:
        s.set_capacities(Capacities(**spec['cap']))
    if spec['ud'] is not None:
        s.set_user_data(UserData(spec['ud'][1]))
    if k == 'node':
        if spec['comps'] is not None:
            aci = AttachedComponentsInfo()
            for c in spec['comps']:
                aci.add_device(build(c))
            s.attached_components_info = aci
    if k in ('node', 'comp'):
        if spec['svcs'] is not None:
            nsi = NetworkServiceInfo()
            for c in spec['svcs']:
                nsi.add_network_service(build(c))
            s.network_service_info = nsi
    if k == 'svc' and spec['ifs'] is not None:
        ii = InterfaceInfo()
        for c in spec['ifs']:
            ii.add_interface(build(c))
        s.interface_info = ii
    if k == 'if' and spec['subs'] is not None:
        ii = InterfaceInfo()
        for c in spec['subs']:
            ii.add_interface(build(c))
        s.interface_info = ii
    return s


def canon(d):
    """TopologyDiff -> JSON-able canonical form (sorted by name); None stays None"""
    if d is None:
        return None

    def ids(s):
        return sorted([[x.resource_name, x.node_id] for x in s], key=lambda p: (p[0], p[1] or ''))

    def idf(l):
        return sorted([[x.resource_name, x.node_id, f.value] for x, f in l], key=lambda p: (p[0], p[1] or '', p[2]))
    return {'added': [ids(getattr(d.added, n)) for n in ('nodes', 'components', 'services', 'interfaces')],
            'removed': [ids(getattr(d.removed, n)) for n in ('nodes', 'components', 'services', 'interfaces')],
            'modified': [idf(getattr(d.modified, n)) for n in ('nodes', 'components', 'services', 'interfaces')]}


def run_diff(x, y):
    try:
        return canon(x.diff(y))
    except Exception as e:
        return {'err': type(e).__name__}


# ----------------------------------------------------------------------------------------------
# the property restated over the two specs (independent oracle)
# ----------------------------------------------------------------------------------------------

def norm_cap(c):
    return None if c is None else {k: v for k, v in c.items() if v != 0}


def own_flags(x, y):
    f = 0
    if x['lab'] != y['lab']:
        f |= 1
    if norm_cap(x['cap']) != norm_cap(y['cap']):
        f |= 2
    if (x['ud'] is None) != (y['ud'] is None) or (x['ud'] is not None and ud_token(x['ud']) != ud_token(y['ud'])):
        f |= 4
    return f


def kids(x, attr):
    return {c['name']: c for c in (x.get(attr) or [])}


def ident(x):
    return [x['name'], x['id']]


def subs_differ(x, y):
    a, b = kids(x, 'subs'), kids(y, 'subs')
    return set(a) != set(b) or any(own_flags(a[k], b[k]) for k in a)


def if_differs(x, y):
    return own_flags(x, y) != 0 or subs_differ(x, y)


def svc_differs(x, y):
    a, b = kids(x, 'ifs'), kids(y, 'ifs')
    return own_flags(x, y) != 0 or set(a) != set(b) or any(if_differs(a[k], b[k]) for k in a)


def the_service(c):
    s = c.get('svcs') or []
    return s[0] if len(s) == 1 else None


def expected(x, y):
    """what x.diff(y) must report, or None"""
    k = x['k']
    added = [[], [], [], []]
    removed = [[], [], [], []]
    modified = [[], [], [], []]
    own = own_flags(x, y)

    def keydiff(attr, slot):
        a, b = kids(x, attr), kids(y, attr)
        added[slot] = sorted([ident(b[n]) for n in set(b) - set(a)], key=lambda p: (p[0], p[1] or ''))
        removed[slot] = sorted([ident(a[n]) for n in set(a) - set(b)], key=lambda p: (p[0], p[1] or ''))
        return [(a[n], b[n]) for n in sorted(set(a) & set(b))]
    if k == 'if':
        if own:
            modified[2].append(ident(x) + [own])      # the port itself is listed under modified.services
        for u, v in keydiff('subs', 3):
            f = own_flags(u, v)
            if f:
                modified[3].append(ident(u) + [f])
    elif k == 'svc':
        if own:
            modified[2].append(ident(x) + [own])
        for u, v in keydiff('ifs', 3):
            f = own_flags(u, v) | (8 if subs_differ(u, v) else 0)
            if f:
                modified[3].append(ident(u) + [f])
    else:
        if own:
            modified[0].append(ident(x) + [own])
        for u, v in keydiff('comps', 1):
            f = own_flags(u, v)
            if u['type'] == 'SmartNIC':
                su, sv = the_service(u), the_service(v)
                if (su is None) != (sv is None) or (su is not None and svc_differs(su, sv)):
                    f |= 8
            if f:
                modified[1].append(ident(u) + [f])
        for u, v in keydiff('svcs', 2):
            f = own_flags(u, v)
            if f:
                modified[2].append(ident(u) + [f])
    if not any(added) and not any(removed) and not any(modified):
        return None
    return {'added': added, 'removed': removed, 'modified': modified}


def wellformed(x):
    """distinct names per container; only DedicatedPorts have children; a SmartNIC has exactly one service"""
    for attr in KINDS[x['k']]:
        ch = x.get(attr) or []
        if len({c['name'] for c in ch}) != len(ch):
            return False
        if not all(wellformed(c) for c in ch):
            return False
    if x['k'] == 'if' and x['type'] != 'DedicatedPort' and (x.get('subs') or []):
        return False
    if x['k'] == 'comp' and x['type'] == 'SmartNIC' and len(x.get('svcs') or []) != 1:
        return False
    return True


def compatible(x, y):
    """elements present in both versions keep their type"""
    if x['type'] != y['type']:
        return False
    for attr in KINDS[x['k']]:
        a, b = kids(x, attr), kids(y, attr)
        if not all(compatible(a[n], b[n]) for n in set(a) & set(b)):
            return False
    return True


def spurious_only(x, y, got, exp):
    """True iff `got` differs from `exp` ONLY by SUB_INTERFACES raised on dedicated ports (common to both
    versions) whose own tracked properties changed while their sub-interfaces did not (finding C17-1)."""
    if x['k'] != 'svc' or got is None or 'err' in got:
        return False
    exp = exp or {'added': [[], [], [], []], 'removed': [[], [], [], []], 'modified': [[], [], [], []]}
    if got['added'] != exp['added'] or got['removed'] != exp['removed'] or got['modified'][:3] != exp['modified'][:3]:
        return False
    a, b = kids(x, 'ifs'), kids(y, 'ifs')
    g = {e[0]: e for e in got['modified'][3]}
    e_ = {e[0]: e for e in exp['modified'][3]}
    if set(g) != set(e_) or len(g) != len(got['modified'][3]):
        return False
    n = 0
    for name in g:
        if g[name] == e_[name]:
            continue
        u, v = a[name], b[name]
        if (g[name][:2] == e_[name][:2] and g[name][2] == e_[name][2] | 8 and u['type'] == 'DedicatedPort'
                and own_flags(u, v) != 0 and not subs_differ(u, v)):
            n += 1
        else:
            return False
    return n > 0


def judge(case, o):
    """None or text saying what part of the property the implementation's answers violate"""
    a, b = case['a'], case['b']
    if not (wellformed(a) and wellformed(b) and compatible(a, b)):
        return None            # outside the quantified domain: only the correspondence is checked
    for tag in ('aa', 'adc'):
        if o[tag] is not None:
            return 'identical copy reported as different (%s): %s' % (tag, json.dumps(o[tag]))
    if o['an'] is not None:
        return 'diff(None) is not None'
    why = []
    for tag, x, y in (('ab', a, b), ('ba', b, a)):
        exp = expected(x, y)
        if o[tag] != exp:
            if spurious_only(x, y, o[tag], exp):
                why.append('spurious-SUB_INTERFACES-on-port-with-own-property-change')
            else:
                why.append('%s: reported %s expected %s' % (tag, json.dumps(o[tag]), json.dumps(exp)))
    if why:
        if all(w.startswith('spurious-SUB_INTERFACES') for w in why):
            return 'spurious-SUB_INTERFACES-on-port-with-own-property-change only'
        return 'not exact: ' + ' | '.join(w for w in why)
    ab, ba = o['ab'], o['ba']
    e4 = [[], [], [], []]
    if (ab['added'] if ab else e4) != (ba['removed'] if ba else e4) or \
            (ab['removed'] if ab else e4) != (ba['added'] if ba else e4):
        return 'added(old,new) is not removed(new,old)'
    return None


# ----------------------------------------------------------------------------------------------
# generator
# ----------------------------------------------------------------------------------------------
LAB_POOL = {'vlan': ['100', '101', '200', ['100', '101'], ['100']], 'ipv4': ['10.0.0.1', '10.0.0.2'],
            'local_name': ['p1', 'p2', 'HundredGigE0/0/0/5'], 'mac': ['00:11:22:33:44:55', '00:11:22:33:44:56'],
            'device_name': ['dev-a', 'dev-b'], 'bdf': ['0000:41:00.0', ['0000:41:00.0', '0000:41:00.1']],
            'ipv6': ['2001:db8::1'], 'asn': ['65000'], 'numa': ['0', '1']}
CAP_POOL = {'core': [0, 1, 2, 8], 'ram': [0, 4, 8], 'disk': [0, 10, 100], 'bw': [0, 1, 10, 100], 'unit': [0, 1, 2],
            'mtu': [0, 1500, 9000], 'burst_size': [0, 5]}
UD_POOL = [['obj', {}], ['obj', {'a': 1}], ['text', '{"a": 1}'], ['text', '{"a":1}'], ['obj', {'a': 1, 'b': [1, 2]}],
           ['obj', {'b': [1, 2], 'a': 1}], ['text', '{ "b": [1, 2], "a": 1 }'], ['obj', {'a': 2}], ['obj', [1, 2]],
           ['text', '[1,2]'], ['text', '"x"'], ['text', ' "x" '], ['text', 'null'], ['text', '{}'],
           ['obj', {'fablib_data': {'mode': 'auto', 'addr': None}}],
           ['text', '{"fablib_data": {"addr": null, "mode": "auto"}}']]


def g_lab(rng):
    r = rng.random()
    if r < 0.35:
        return None
    if r < 0.42:
        return {}
    ks = rng.sample(sorted(LAB_POOL), rng.choice([1, 1, 2, 3]))
    return {k: copy.deepcopy(rng.choice(LAB_POOL[k])) for k in ks}


def g_cap(rng):
    r = rng.random()
    if r < 0.4:
        return None
    if r < 0.47:
        return {}
    ks = rng.sample(sorted(CAP_POOL), rng.choice([1, 2, 3]))
    return {k: rng.choice(CAP_POOL[k]) for k in ks}


def g_ud(rng):
    return None if rng.random() < 0.45 else copy.deepcopy(rng.choice(UD_POOL))


def g_base(rng, k, name, typ):
    nid = None if rng.random() < 0.08 else 'id-%s-%s' % (k, name)
    return {'k': k, 'name': name, 'id': nid, 'type': typ, 'lab': g_lab(rng), 'cap': g_cap(rng), 'ud': g_ud(rng)}


def g_container(rng, maker, names, lo=0, hi=3, p_none=0.15):
    if rng.random() < p_none:
        return None
    n = rng.randint(lo, min(hi, len(names)))
    return [maker(rng, nm) for nm in rng.sample(names, n)]


SUB_NAMES = ['s1', 'sub-2', 'p.3', 'v4']
IF_NAMES = ['p1', 'p2', 'port-3', 'eth4']
SVC_NAMES = ['svc1', 'svc2', 'ns-a', 'br.4']
COMP_NAMES = ['nic1', 'nic2', 'gpu1', 'nvme1', 'snic.5']


def g_sub(rng, name):
    return g_base(rng, 'sub', name, 'SubInterface')


def g_if(rng, name, dedicated=None):
    if dedicated is None:
        dedicated = rng.random() < 0.6
    x = g_base(rng, 'if', name, 'DedicatedPort' if dedicated else rng.choice(['SharedPort', 'AccessPort', 'TrunkPort', 'vInt']))
    if dedicated:
        x['subs'] = g_container(rng, g_sub, SUB_NAMES, 0, 3, 0.25)
    else:
        x['subs'] = None if rng.random() < 0.8 else []
    return x


def g_svc(rng, name, dedicated=None):
    x = g_base(rng, 'svc', name, rng.choice(['L2Bridge', 'L2STS', 'FABNetv4', 'OVS', 'PortMirror']))
    x['ifs'] = g_container(rng, lambda r, n: g_if(r, n, dedicated), IF_NAMES, 0, 3, 0.12)
    return x


def g_comp(rng, name):
    typ = rng.choice(['SmartNIC', 'SmartNIC', 'SharedNIC', 'GPU', 'NVME', 'FPGA'])
    x = g_base(rng, 'comp', name, typ)
    if typ == 'SmartNIC':
        x['svcs'] = [g_svc(rng, name + '-l2ovs', True)]
    elif typ == 'SharedNIC':
        x['svcs'] = [g_svc(rng, name + '-l2ovs', False)]
    else:
        x['svcs'] = None if rng.random() < 0.8 else []
    return x


def g_node(rng, name='node1'):
    x = g_base(rng, 'node', name, rng.choice(['VM', 'Server', 'Switch']))
    x['comps'] = g_container(rng, g_comp, COMP_NAMES, 0, 4, 0.12)
    x['svcs'] = g_container(rng, g_svc, SVC_NAMES, 0, 3, 0.2)
    return x


def walk(x, path=()):
    """all (path, sliver) of a tree; a path is a tuple of (attr, name) steps"""
    yield path, x
    for attr in KINDS[x['k']]:
        for c in (x.get(attr) or []):
            yield from walk(c, path + ((attr, c['name']),))


def at(x, path):
    for attr, name in path:
        nxt = [c for c in (x.get(attr) or []) if c['name'] == name]
        if not nxt:
            return None
        x = nxt[0]
    return x


MAKERS = {'comps': (g_comp, COMP_NAMES), 'svcs': (g_svc, SVC_NAMES), 'ifs': (g_if, IF_NAMES), 'subs': (g_sub, SUB_NAMES)}
EDITS = ['add', 'remove', 'lab', 'cap', 'ud', 'equal_ud', 'shuffle', 'none_empty', 'readd_same', 'new_id']


def edit(rng, a, b, allow_shape=True):
    """apply one random edit to the copy b (equal_ud also touches a); returns the edit's name"""
    kind = rng.choice(EDITS)
    sites = [(p, s) for p, s in walk(b)]
    if rng.random() < 0.5:
        shallow = [(p, s) for p, s in sites if len(p) <= 1]
        p, s = rng.choice(shallow)
    else:
        p, s = rng.choice(sites)
    if kind in ('lab', 'cap', 'ud'):
        g = {'lab': g_lab, 'cap': g_cap, 'ud': g_ud}[kind]
        old = s[kind]
        for _ in range(4):
            s[kind] = g(rng)
            if s[kind] != old:
                break
        return kind + ':' + s['k']
    if kind == 'equal_ud':
        sa = at(a, p)
        if sa is None:
            return None
        v = rng.choice([{'a': 1, 'b': [1, 2]}, {'k': 'v'}, [1, 2, 3], {}])
        sa['ud'] = ['obj', copy.deepcopy(v)]
        s['ud'] = rng.choice([['text', json.dumps(v)], ['text', json.dumps(v, sort_keys=True, separators=(',', ':'))],
                              ['obj', dict(reversed(list(v.items()))) if isinstance(v, dict) else copy.deepcopy(v)]])
        return 'equal_ud:' + s['k']
    attrs = [t for t in KINDS[s['k']]]
    if s['k'] == 'comp':
        attrs = []                      # the service of a NIC is fixed by the catalogue; edits go below it
    if s['k'] == 'if' and s['type'] != 'DedicatedPort':
        attrs = []
    if not attrs or not allow_shape:
        return None
    attr = rng.choice(attrs)
    ch = s.get(attr)
    maker, names = MAKERS[attr]
    if kind == 'add':
        free = [n for n in names + [n + 'x' for n in names] if n not in {c['name'] for c in (ch or [])}]
        if not free:
            return None
        if s['k'] == 'svc' and at(b, p[:-1]) is not None and at(b, p[:-1])['k'] == 'comp':
            new = g_if(rng, rng.choice(free), at(b, p[:-1])['type'] == 'SmartNIC')
        else:
            new = maker(rng, rng.choice(free))
        s[attr] = (ch or []) + [new]
        if rng.random() < 0.3:
            rng.shuffle(s[attr])
        return 'add:' + attr
    if kind == 'remove':
        if not ch:
            return None
        ch.pop(rng.randrange(len(ch)))
        if not ch and rng.random() < 0.3:
            s[attr] = None
        return 'remove:' + attr
    if kind == 'shuffle':
        if not ch or len(ch) < 2:
            return None
        rng.shuffle(ch)
        return 'shuffle:' + attr
    if kind == 'none_empty':
        if ch is None:
            s[attr] = []
        elif ch == []:
            s[attr] = None
        else:
            return None
        return 'none_empty:' + attr
    if kind == 'readd_same':            # remove an element and add one of the same name with fresh content
        if not ch:
            return None
        i = rng.randrange(len(ch))
        old = ch[i]
        if old['k'] == 'comp':
            return None
        new = maker(rng, old['name']) if old['k'] != 'if' else g_if(rng, old['name'], old['type'] == 'DedicatedPort')
        if new['type'] != old['type']:
            new['type'] = old['type']
        ch.pop(i)
        ch.append(new)
        return 'readd_same:' + attr
    if kind == 'new_id':
        if not ch:
            return None
        c = rng.choice(ch)
        c['id'] = (c['id'] or 'id') + '-v2'
        return 'new_id:' + attr
    return None


def g_case(rng, level):
    root = {'node': g_node, 'svc': lambda r: g_svc(r, 'svc1'), 'if': lambda r: g_if(r, 'p1', True)}[level](rng)
    a = root
    b = copy.deepcopy(a)
    done = []
    r = rng.random()
    n = 0 if r < 0.08 else 1 if r < 0.45 else rng.randint(2, 6)
    tries = 0
    while len(done) < n and tries < 40:
        tries += 1
        e = edit(rng, a, b)
        if e:
            done.append(e)
    return {'level': level, 'a': a, 'b': b, 'edits': done}


def g_malformed(rng):
    """outside the well-formedness domain: only the model/implementation agreement is checked here"""
    c = g_case(rng, 'node')
    a, b = c['a'], c['b']
    fault = rng.choice(['no_service_info', 'empty_services', 'two_services', 'plain_port_with_children',
                        'type_change', 'no_service_info_new'])
    comps_a = [x for x in (a.get('comps') or [])]
    comps_b = kids(b, 'comps')
    if not comps_a:
        a['comps'] = [g_comp(rng, 'nic1')]
        a['comps'][0]['type'] = 'SmartNIC'
        a['comps'][0]['svcs'] = [g_svc(rng, 'nic1-l2ovs', True)]
        b['comps'] = copy.deepcopy(a['comps']) + [z for z in (b.get('comps') or []) if z['name'] != 'nic1']
        comps_a = a['comps']
        comps_b = kids(b, 'comps')
    x = rng.choice(comps_a)
    y = comps_b.get(x['name'])
    if fault == 'no_service_info':
        for z in comps_a:
            if z['type'] == 'SmartNIC':
                z['svcs'] = None
        x['type'] = 'SmartNIC'
        x['svcs'] = None
    elif fault == 'no_service_info_new':
        if y is not None:
            x['type'] = 'SmartNIC'
            if not x.get('svcs'):
                x['svcs'] = [g_svc(rng, 'sx1', True)]
            y['svcs'] = None
            for z in comps_b.values():
                if z['type'] == 'SmartNIC' and not z.get('svcs'):
                    z['svcs'] = None
    elif fault == 'empty_services':
        for z in comps_a:
            if z['type'] == 'SmartNIC':
                z['svcs'] = []
        x['type'] = 'SmartNIC'
        x['svcs'] = []
    elif fault == 'two_services':
        x['type'] = 'SmartNIC'
        x['svcs'] = [g_svc(rng, 'sx1', True), g_svc(rng, 'sx2', True)]
        if y is not None:
            y['type'] = 'SmartNIC'
            y['svcs'] = copy.deepcopy(x['svcs'])
            if rng.random() < 0.6:
                y['svcs'].reverse()
            if rng.random() < 0.5:
                edit(rng, x['svcs'][0], y['svcs'][0])
    elif fault == 'plain_port_with_children':
        for p, s in walk(a):
            if s['k'] == 'if' and s['type'] != 'DedicatedPort':
                s['subs'] = [g_sub(rng, 's1')]
        for p, s in walk(b):
            if s['k'] == 'if' and s['type'] != 'DedicatedPort':
                s['subs'] = [g_sub(rng, rng.choice(['s1', 'sub-2']))]
    elif fault == 'type_change':
        if y is not None:
            y['type'] = 'GPU' if x['type'] == 'SmartNIC' else 'SmartNIC'
            if y['type'] == 'SmartNIC' and not y.get('svcs'):
                y['svcs'] = [g_svc(rng, 'sx1', True)]
    c['edits'] = c['edits'] + ['fault:' + fault]
    return c


# ----------------------------------------------------------------------------------------------
# Coq terms
# ----------------------------------------------------------------------------------------------

def c_props(x):
    f = fields()
    if x['lab'] is None:
        lab = 'None'
    else:
        lab = '(Some %s)' % clist(['(%s, %s)' % (cN(f['lab'].index(k)), cN(intern('labval', json.dumps(v))))
                                    for k, v in x['lab'].items()])
    if x['cap'] is None:
        cap = 'None'
    else:
        cap = '(Some %s)' % clist(['(%s, %s)' % (cN(f['cap'].index(k)), cZ(v)) for k, v in x['cap'].items() if v != 0])
    ud = 'None' if x['ud'] is None else '(Some %s)' % cN(intern('ud', ud_token(x['ud'])))
    return '(mkProps %s %s %s)' % (lab, cap, ud)


def c_name(x):
    return cN(intern('name', x['name']))


def c_id(i):
    return cN(0 if i is None else intern('id', i))


def c_kids(x, attr):
    ch = x.get(attr)
    return 'None' if ch is None else '(Some %s)' % clist([c_tree(c) for c in ch])


def c_tree(x):
    k = x['k']
    head = '%s %s %s' % (c_name(x), c_id(x['id']), c_props(x))
    if k == 'sub':
        return '(mkSub %s)' % head
    if k == 'if':
        return '(mkIf %s %s %s)' % (head, cbool(x['type'] == 'DedicatedPort'), c_kids(x, 'subs'))
    if k == 'svc':
        return '(mkSvc %s %s)' % (head, c_kids(x, 'ifs'))
    if k == 'comp':
        return '(mkComp %s %s %s)' % (head, cbool(x['type'] == 'SmartNIC'), c_kids(x, 'svcs'))
    return '(mkNode %s %s %s)' % (head, c_kids(x, 'comps'), c_kids(x, 'svcs'))


ERR = {'AttributeError': 1, 'IndexError': 2}


def c_obs(o):
    if o is None:
        return 'ONone'
    if 'err' in o:
        return '(ORaised %s)' % cN(ERR.get(o['err'], 0))
    ids = lambda l: clist(['(%s, %s)' % (cN(intern('name', n)), c_id(i)) for n, i in l])
    idf = lambda l: clist(['((%s, %s), %s)' % (cN(intern('name', n)), c_id(i), cN(f)) for n, i, f in l])
    return '(ODiff %s %s %s)' % (clist([ids(l) for l in o['added']]), clist([ids(l) for l in o['removed']]),
                                 clist([idf(l) for l in o['modified']]))


# ----------------------------------------------------------------------------------------------
# streams
# ----------------------------------------------------------------------------------------------

def size(x):
    return sum(1 for _ in walk(x))


class DiffStream(Stream):
    level = 'node'
    header = ('From Coq Require Import List ZArith NArith Bool.\nImport ListNotations.\n'
              'From FIM Require Import Model.Diff17.\nOpen Scope N_scope.\n')
    shard = 150
    counts = (400, 8000)

    def gen(self, rng, tier):
        n = self.counts[0] if tier == 'quick' else self.counts[1]
        return [g_case(rng, self.level) for _ in range(n)]

    def corpus(self):
        out = []
        d = os.path.join(VERIF, 'corpus', 'C17')
        for p in sorted(glob.glob(os.path.join(d, '*.json'))):
            with open(p) as f:
                c = json.load(f)
            if c.get('stream') == self.name:
                out.append(c['case'])
        return out

    def observe(self, case):
        a, b = build(case['a']), build(case['b'])
        a2 = build(case['a'])
        return {'ab': run_diff(a, b), 'ba': run_diff(b, a), 'aa': run_diff(a, a2),
                'adc': run_diff(a, copy.deepcopy(a)), 'an': run_diff(a, None)}

    def to_coq(self, case, o):
        return '((%s,\n    %s),\n   (%s, %s, %s, %s))' % (c_tree(case['a']), c_tree(case['b']), c_obs(o['ab']), c_obs(o['ba']),
                                                        c_obs(o['aa']), c_obs(o['an']))

    def oracle(self, case, o):
        return judge(case, o)

    def key(self, case, o):
        if o['ab'] is None and o['ba'] is None:
            return None if not case['edits'] else stable_hash([case['a'], case['b']])
        return stable_hash([case['a'], case['b']])

    def describe(self, case, o):
        return {'edits': case['edits'], 'old': case['a'], 'new': case['b'], 'impl': {'old.diff(new)': o['ab'], 'new.diff(old)': o['ba']}}

    def histogram(self, cases, obs):
        h = {'no_difference': 0, 'raised': 0, 'edits': {}, 'flags_seen': {}, 'tree_size_avg': 0,
             'added_nonempty': 0, 'removed_nonempty': 0, 'equal_valued_userdata_distinct_text': 0}
        tot = 0
        for c, o in zip(cases, obs):
            tot += size(c['a'])
            for e in c['edits']:
                h['edits'][e] = h['edits'].get(e, 0) + 1
            ab = o['ab']
            if ab is None:
                h['no_difference'] += 1
            elif 'err' in ab:
                h['raised'] += 1
            else:
                h['added_nonempty'] += any(ab['added'])
                h['removed_nonempty'] += any(ab['removed'])
                for l in ab['modified']:
                    for e in l:
                        h['flags_seen'][str(e[2])] = h['flags_seen'].get(str(e[2]), 0) + 1
            for (p, s) in walk(c['a']):
                t = at(c['b'], p)
                if t is not None and s['ud'] is not None and t['ud'] is not None and s['ud'] != t['ud'] \
                        and ud_token(s['ud']) == ud_token(t['ud']):
                    h['equal_valued_userdata_distinct_text'] += 1
                    break
        h['tree_size_avg'] = round(tot / max(1, len(cases)), 1)
        return h

    def shrink(self, case, failing):
        case = copy.deepcopy(case)
        progress = True
        rounds = 0
        while progress and rounds < 30:
            progress = False
            rounds += 1
            # drop a child (by name) from both versions
            for p, s in list(walk(case['a'])) + list(walk(case['b'])):
                if not p:
                    continue
                c2 = copy.deepcopy(case)
                for side in ('a', 'b'):
                    par = at(c2[side], p[:-1])
                    if par is not None and par.get(p[-1][0]):
                        par[p[-1][0]] = [c for c in par[p[-1][0]] if c['name'] != p[-1][1]]
                if c2 != case and failing(c2):
                    case = c2
                    progress = True
                    break
            if progress:
                continue
            # forget a tracked property on both sides
            for p, s in list(walk(case['a'])) + list(walk(case['b'])):
                for fld in ('lab', 'cap', 'ud'):
                    c2 = copy.deepcopy(case)
                    for side in ('a', 'b'):
                        t = at(c2[side], p)
                        if t is not None:
                            t[fld] = None
                    if c2 != case and failing(c2):
                        case = c2
                        progress = True
                        break
                if progress:
                    break
        case['edits'] = ['(shrunk)']
        return case


class NodeS(DiffStream):
    name = 'node'
    level = 'node'
    case_type = '(node * node) * (obs * obs * obs * obs)'
    check_fn = 'check_node'
    counts = (450, 9000)
    rule = ('NodeSliver trees (components > services > ports > sub-interfaces, node-level services) built with the real '
            'sliver classes; new = copy edited by 0-6 edits (add/remove/re-add component, service, interface, sub-interface; '
            'change labels/capacities/user data anywhere; equal-valued user data as distinct objects/texts; reorder; '
            'None<->empty container; new node_id); old.diff(new), new.diff(old), old.diff(copy), old.diff(None); '
            'non-trivial = at least one edit; distinct by (old,new)')


_variant = {}


def service_variant():
    """which transcription of NetworkServiceSliver.diff the implementation under test shows: 'current'
    (finding C17-1: witness still fails) or 'fixed' (proposed_fixes/C17-1.patch behaviour); probed once per run"""
    if 'v' not in _variant:
        still, _ = replay_port_flag_witness()
        _variant['v'] = 'current' if still else 'fixed'
    return _variant['v']


class SvcS(DiffStream):
    name = 'service'
    level = 'svc'
    case_type = '(svc * svc) * (obs * obs * obs * obs)'

    @property
    def check_fn(self):
        return 'check_svc' if service_variant() == 'current' else 'check_svc_fixed'
    counts = (350, 7000)
    rule = 'same for NetworkServiceSliver trees (ports, sub-interfaces)'


class IfS(DiffStream):
    name = 'interface'
    level = 'if'
    case_type = '(iface * iface) * (obs * obs * obs * obs)'
    check_fn = 'check_iface'
    counts = (200, 4000)
    rule = 'same for InterfaceSliver trees (a dedicated port and its sub-interfaces)'


class MalformedS(DiffStream):
    name = 'malformed'
    level = 'node'
    case_type = '(node * node) * (obs * obs * obs * obs)'
    check_fn = 'check_node'
    counts = (150, 3000)
    rule = ('node trees OUTSIDE the well-formedness domain (SmartNIC without / with an empty / with two service(s), '
            'children under a non-dedicated port, component type changed): the model must predict the raised '
            'exception class or the reported diff; the property oracle is silent here')

    def gen(self, rng, tier):
        n = self.counts[0] if tier == 'quick' else self.counts[1]
        return [g_malformed(rng) for _ in range(n)]


# ----------------------------------------------------------------------------------------------
# the refuted witness of Proofs/Diff17Refuted.v, replayed on the implementation
# ----------------------------------------------------------------------------------------------

def witness_case():
    def port(vlan):
        return {'k': 'if', 'name': 'p1', 'id': 'id-p1', 'type': 'DedicatedPort', 'lab': {'vlan': vlan}, 'cap': None,
                'ud': None, 'subs': [{'k': 'sub', 'name': 's1', 'id': 'id-s1', 'type': 'SubInterface',
                                      'lab': {'vlan': '5'}, 'cap': None, 'ud': None}]}
    mk = lambda vlan: {'k': 'svc', 'name': 'svc1', 'id': 'id-svc1', 'type': 'L2Bridge', 'lab': None, 'cap': None,
                       'ud': None, 'ifs': [port(vlan)]}
    return {'level': 'svc', 'a': mk('100'), 'b': mk('101'), 'edits': ['lab:if']}


def replay_port_flag_witness():
    c = witness_case()
    o = SvcS().observe(c)
    got = o['ab']
    still = got is not None and 'err' not in got and got['modified'][3] == [['p1', 'id-p1', 9]]
    return still, {'case': c, 'implementation': got,
                   'expected': expected(c['a'], c['b'])}


class C17(Check):
    pid = 'C17'
    translators = []
    model_targets = ['Model/Diff17.vo']
    streams = [NodeS(), SvcS(), IfS(), MalformedS()]
    trusted_base = [
        'Coq 8.16.1 kernel (coqc), vm_compute for the correspondence evaluation; no native_compute',
        'Print Assumptions of every C17 theorem: Closed under the global context (no axioms)',
        'Model/Diff17.v is a hand transcription of NodeSliver.diff / NetworkServiceSliver.diff / InterfaceSliver.diff / '
        'prop_diff / _dict_diff / _dict_common; it is tied to the code only by the correspondence streams of harness/c17.py',
        'harness/c17.py + harness/common.py: building slivers from specs, canonicalising TopologyDiff to sorted '
        '(name, node_id[, flag value]) lists, interning of names / ids / label values / user-data VALUES '
        '(json.dumps(sort_keys) of the parsed blob) to N, sparse encoding of Labels (non-None fields) and Capacities (non-zero fields)',
        'modelled not verified: Python dict/set semantics (a dict as the list of its values with distinct keys), '
        'operator dispatch of != with None operands, truthiness of objects without __len__/__bool__, json value equality',
    ]
    assumptions = [
        'both slivers are of the same class (the code asserts it) and their children dictionaries are keyed by resource_name',
        'Labels/Capacities objects carry the current field list; capacity fields are ints; user-data values contain no floats/bools (1 == 1.0 == True in Python)',
        'well-formed: only DedicatedPorts have child interfaces; a SmartNIC component has exactly one network service; an element present in both versions keeps its type',
    ]

    def refuted_witnesses(self):
        return [('C17_service_flags_exact_refuted', replay_port_flag_witness)]

    def extra_static(self, ctx):
        v = service_variant()
        return [{'name': 'service-variant-probe', 'ok': True,
                 'detail': ('implementation shows finding C17-1 (witness fails): service stream compared with svc_diff'
                            if v == 'current' else
                            'implementation no longer shows finding C17-1: service stream compared with svc_diff_fixed, '
                            'full statement C17_service_exact_after_fix applies')}]


if __name__ == '__main__':
    sys.exit(main(C17()))

"""C11 - authorization and accounting attributes cover every resource, in any order.

One case = one slice description + several creation orders (permutations) of the same slice.  For every
order the slice is built with the real ExperimentTopology API, and we record: the attribute mapping of
ResourceAuthZAttributes (exact key and value order), the PDP request (JSON parsed), the LogCollector
dictionary, and (for validated slices) the attribute mapping collected from the serialized ASM.
Coq evaluates Model/Collect11.v on the abstract slice in STORAGE order (as the API lists it) and compares.
The oracle is independent of the model: it restates the property over the slice DESCRIPTION (what was
asked to be built) and compares the permutations with each other."""
import sys, os, json, copy, itertools, collections, glob
from . import common
from .common import *

SITES = ['RENC', 'UKY', 'TACC', 'STAR']
PORTNAMES = ['p1', 'p2', 'HundredGigE0/0/0/5', 'TenGigE0/0/0/1', 'eth7']
# component model -> (type printed by the collectors, number of dedicated ports, number of shared ports)   [pinned]
MODELS = {
    'SmartNIC_ConnectX_6': ('SmartNIC', 2, 0), 'SmartNIC_ConnectX_5': ('SmartNIC', 2, 0),
    'SharedNIC_ConnectX_6': ('SharedNIC', 0, 1), 'GPU_RTX6000': ('GPU', 0, 0), 'GPU_Tesla_T4': ('GPU', 0, 0),
    'NVME_P4510': ('NVME', 0, 0), 'FPGA_Xilinx_U280': ('FPGA', 2, 0),
}
# services implicitly created with a component / switch / facility (they are listed by topo.network_services)
IMPLICIT_NS = {'SmartNIC': 'OVS', 'SharedNIC': 'OVS', 'FPGA': 'P4'}

# The attribute ids, data types and categories the PDP policies are written against [pinned specification]
RES = 'urn:oasis:names:tc:xacml:3.0:attribute-category:resource'
ACT = 'urn:oasis:names:tc:xacml:3.0:attribute-category:action'
SUB = 'urn:oasis:names:tc:xacml:1.0:subject-category:access-subject'
XS = 'http://www.w3.org/2001/XMLSchema#'
U = {
    'type': 'urn:fabric:xacml:attributes:resource-type', 'cpu': 'urn:fabric:xacml:attributes:resource-cpu',
    'ram': 'urn:fabric:xacml:attributes:resource-ram', 'disk': 'urn:fabric:xacml:attributes:resource-disk',
    'bw': 'urn:fabric:xacml:attribute:resource-bw', 'site': 'urn:fabric:xacml:attribute:resource-site',
    'component': 'urn:fabric:xacml:attribute:resource-component',
    'FABNetv4Ext': 'urn:fabric:xacml:attribute:resource-fabnetv4-ext-site',
    'FABNetv6Ext': 'urn:fabric:xacml:attribute:resource-fabnetv6-ext-site',
    'PortMirror': 'urn:fabric:xacml:attribute:resource-mirrorsite',
    'facility': 'urn:fabric:xacml:attribute:resource-facility-port',
    'lifetime': 'urn:fabric:xacml:attributes:resource-lifetime', 'rproject': 'urn:fabric:xacml:attributes:resource-project',
    'rsubject': 'urn:fabric:xacml:attributes:resource-subject', 'action': 'urn:oasis:names:tc:xacml:1.0:action:action-id',
    'subject': 'urn:oasis:names:tc:xacml:1.0:subject:subject-id', 'sproject': 'urn:fabric:xacml:attributes:subject-project',
    'tag': 'urn:fabric:xacml:attributes:project-tag',
}
PINNED = {
    U['type']: (XS + 'string', RES), U['cpu']: (XS + 'integer', RES), U['ram']: (XS + 'integer', RES),
    U['disk']: (XS + 'integer', RES), U['bw']: (XS + 'integer', RES), U['site']: (XS + 'string', RES),
    U['component']: (XS + 'string', RES), U['FABNetv4Ext']: (XS + 'string', RES), U['FABNetv6Ext']: (XS + 'string', RES),
    U['PortMirror']: (XS + 'string', RES), U['facility']: (XS + 'string', RES), U['rproject']: (XS + 'string', RES),
    U['rsubject']: (XS + 'string', RES), U['action']: (XS + 'string', ACT), U['lifetime']: (XS + 'dayTimeDuration', ACT),
    U['subject']: (XS + 'string', SUB), U['sproject']: (XS + 'string', SUB), U['tag']: (XS + 'string', SUB),
}
CAT_ORDER = [RES, ACT, SUB]
# compression dictionary of the cases files: long strings of an observation are written as (VD i); Model/Collect11.v
# lists the same strings in the same order (static obligation dict_in_sync; a mismatch would also show as a disagreement)
DICT = list(PINNED.keys()) + [XS + 'string', XS + 'integer', XS + 'boolean', XS + 'dayTimeDuration', RES, ACT, SUB,
                              'sliver', 'switch-p4', 'UNKNOWN-SITE', 'user@example.org']
DICT_IDX = {x: i for i, x in enumerate(DICT)}
SPECIAL = ('PortMirror', 'FABNetv4Ext', 'FABNetv6Ext')


# ------------------------------------------------------------------------------------------------
# building a slice with the real API
# ------------------------------------------------------------------------------------------------

def _caps(c):
    from fim.slivers.capacities_labels import Capacities
    return None if c is None else Capacities(core=c[0], ram=c[1], disk=c[2])


def build(desc, perm):
    """-> (topology, {svc name: service object}).  perm = {'items': order of nodes+facilities, 'svcs': order}"""
    from fim.user.topology import ExperimentTopology
    from fim.slivers.capacities_labels import Capacities, Labels
    from fim.user.component import ComponentModelType
    from fim.slivers.network_service import ServiceType
    from fim.slivers.network_node import NodeType
    t = ExperimentTopology()
    items = desc['nodes'] + desc['facs']
    objs = {}
    comps = {}
    for i in perm['items']:
        it = items[i]
        if i >= len(desc['nodes']):
            kw = {}
            if it.get('bw') is not None:
                kw['capacities'] = Capacities(bw=it['bw'])
            objs[i] = t.add_facility(name=it['name'], site=it['site'], **kw)
            continue
        if it['kind'] == 'Switch':
            objs[i] = t.add_switch(name=it['name'], site=it['site'], nports=it['nports'])
            continue
        kw = {}
        if it['caps'] is not None:
            kw['capacities'] = _caps(it['caps'])
        if it['alloc'] is not None:
            kw['capacity_allocations'] = _caps(it['alloc'])
        n = t.add_node(name=it['name'], site=it['site'], ntype=NodeType[it['kind']], **kw)
        objs[i] = n
        order = (perm.get('comps') or {}).get(str(i)) or list(range(len(it['comps'])))
        for j in order:
            comps[(i, j)] = n.add_component(name='c%d' % j, model_type=ComponentModelType[it['comps'][j]])

    def iface(end):
        if end[0] == 'c':
            return comps[(end[1], end[2])].interface_list[end[3]]
        if end[0] == 'sw':
            return objs[end[1]].interface_list[end[2]]
        if end[0] == 'fac':
            return objs[len(desc['nodes']) + end[1]].interface_list[0]
        raise ValueError(end)
    svcs = {}
    for k in perm['svcs']:
        sd = desc['svcs'][k]
        kw = {}
        if sd['bw'] is not None:
            kw['capacities'] = Capacities(bw=sd['bw'])
        if sd['site'] is not None:
            kw['site'] = sd['site']
        if sd['type'] == 'PortMirror':
            ns = t.add_port_mirror_service(name=sd['name'], from_interface_name=sd['mirror'],
                                           to_interface=iface(sd['ends'][0]), **kw)
        else:
            ns = t.add_network_service(name=sd['name'], nstype=ServiceType[sd['type']],
                                       interfaces=[iface(e) for e in sd['ends']], **kw)
        for lab in sd['labels']:
            sp = ns.interface_list[lab['end']]
            sp.labels = Labels(local_name=lab['name']) if lab['name'] is not None else Labels(vlan='100')
        svcs[sd['name']] = ns
    return t, svcs


def _c3(c):
    return None if c is None else [c.core, c.ram, c.disk]


def snap_node(n):
    """abstract node as the API lists it (shallow property accessors; component order of the API)"""
    cp = n.get_property('capacities')
    al = n.get_property('capacity_allocations')
    return {'kind': str(n.type), 'name': n.name, 'site': n.site or None, 'caps': _c3(cp), 'alloc': _c3(al),
            'comps': [str(c.type) for c in n.components.values()]}


def snap_svc(ns):
    cp = ns.get_property('capacities')
    return {'type': str(ns.type), 'site': ns.site or None, 'bw': None if cp is None else cp.bw,
            'mirror': ns.get_property('mirror_port')}


def inslice_labels(desc):
    """labels carried by service ports that face an interface of a (non-facility) node"""
    out = []
    for sd in desc['svcs']:
        if sd.get('removed'):
            continue
        for lab in sd['labels']:
            if sd['ends'][lab['end']][0] != 'fac':
                out.append(lab['name'])
    return out


def snapshot(t, desc):
    api_ports = []
    for ifs in t.interface_list:
        p = ifs.get_peers()
        if p and p[0] and p[0].labels:
            api_ports.append(p[0].labels.local_name)
    want = inslice_labels(desc)
    return {'nodes': [snap_node(n) for n in t.nodes.values()],
            'ports': want,
            'ports_agree': sorted(map(repr, api_ports)) == sorted(map(repr, want)),
            'svcs': [snap_svc(s) for s in t.network_services.values()],
            'facs': [f.name for f in t.facilities.values()]}


class FixedNow:
    """stand-in for datetime inside attribute_collector: now() is a fixed instant"""
    import datetime as _dt
    FIXED = _dt.datetime(2030, 1, 1, 0, 0, 0, tzinfo=_dt.timezone.utc)

    @classmethod
    def now(cls, tz=None):
        return cls.FIXED


def apply_extras(az, extras):
    import datetime as _dt
    import fim.authz.attribute_collector as ac
    for e in extras:
        if e[0] == 'subject':
            az.set_subject_attributes(subject_id=e[1], project=e[2], project_tag=e[3])
        elif e[0] == 'action':
            az.set_action(e[1])
        elif e[0] == 'ressp':
            az.set_resource_subject_and_project(subject_id=e[1], project=e[2])
        elif e[0] == 'lifetime':
            old = ac.datetime
            ac.datetime = FixedNow
            try:
                az.set_lifetime(FixedNow.FIXED + _dt.timedelta(days=e[1], seconds=e[2], microseconds=e[3]))
            finally:
                ac.datetime = old


def attrs_list(az):
    return [[k, list(v)] for k, v in az.attributes.items()]


def canon_attrs(al):
    if isinstance(al, dict):
        return al
    return sorted([k, sorted(v, key=repr)] for k, v in al)


def parse_pdp(js):
    d = json.loads(js)
    r = d['Request']
    assert list(d.keys()) == ['Request'] and sorted(r.keys()) == ['Category', 'CombinedDecision', 'ReturnPolicyIdList']
    cats = []
    for c in r['Category']:
        assert sorted(c.keys()) == ['Attribute', 'CategoryId']
        al = []
        for a in c['Attribute']:
            assert sorted(a.keys()) == ['AttributeId', 'DataType', 'IncludeInResult', 'Value']
            al.append([a['IncludeInResult'], a['Value'], a['AttributeId'], a['DataType']])
        cats.append([c['CategoryId'], al])
    return [r['ReturnPolicyIdList'], r['CombinedDecision'], cats]


def snapshot_api(t):
    """abstract slice of a topology read through the API only (in-slice port labels included)"""
    ports = []
    for ifs in t.interface_list:
        p = ifs.get_peers()
        if p and p[0] and p[0].labels:
            ports.append(p[0].labels.local_name)
    return {'nodes': [snap_node(n) for n in t.nodes.values()], 'ports': ports, 'ports_agree': True,
            'svcs': [snap_svc(s_) for s_ in t.network_services.values()], 'facs': [f.name for f in t.facilities.values()]}


def parse_summary(text):
    """LogCollector.__str__ -> [[vms, cores, p4s, components, services, vmdetails], sites, facilities]"""
    parts = {}
    for seg in text.split(';'):
        seg = seg[1:] if seg.startswith(' ') else seg
        key, _, rest = seg.partition(' ')
        parts[key] = rest
    comp = dict(x.split(':') for x in parts['compute'].split(','))
    lst = lambda k: [x for x in parts.get(k, '').split(',') if x]
    vmd = [[x.rsplit(':', 1)[0], int(x.rsplit(':', 1)[1])] for x in lst('vmdetails')]
    unknown = set(parts) - {'compute', 'sites', 'facilities', 'components', 'services', 'vmdetails'}
    if unknown:
        raise ValueError('unknown summary sections %r' % sorted(unknown))
    return [[int(comp['vms']), int(comp['cores']), int(comp['p4s']), lst('components'), lst('services'), vmd],
            sorted(lst('sites')), sorted(lst('facilities'))]


def log_obs(lc):
    a = lc.attributes
    return {'nodes': [[c.core, c.ram, c.disk] for c in a['nodes']], 'core': a['core_count'], 'vm': a['vm_count'],
            'p4': a['p4_count'], 'comps': [[k, v] for k, v in a['components'].items()],
            'svcs': [[s[0], s[1]] for s in a['services']], 'facs': sorted(a['facilities']), 'sites': sorted(a['sites'])}


def observe_one(desc, perm, with_asm):
    from fim.authz.attribute_collector import ResourceAuthZAttributes
    from fim.logging.log_collector import LogCollector
    out = {'snap': None, 'validate': None, 'attrs': None, 'pdp': None, 'log': None, 'asm': None, 'asm_log': None, 'ops': None,
           'asm_raw': None, 'late_validate': None, 'summary': None, 'asm_exact': None, 'asm_pre': None, 'asm_post': None}
    try:
        t, svcs = build(desc, perm)
    except Exception as e:
        out['attrs'] = {'err': 'build:' + type(e).__name__ + ':' + str(e)[:200]}
        return out
    pre_ser = t.serialize() if (with_asm and desc['mode'] == 'topo') else None     # the model before any validate()
    if desc['validate']:
        try:
            t.validate()
            out['validate'] = 'ok'
        except Exception as e:
            out['validate'] = type(e).__name__
    flags = desc['flags']
    if desc['mode'] == 'topo':
        out['snap'] = snapshot(t, desc)
        out['ops'] = [['topo']]

        def sources():
            return [t]
    else:
        # parts: single members as sources (Node / NodeSliver / NetworkService / NetworkServiceSliver objects)
        ops = []
        for p in desc['parts']:
            if p[0] == 'node':
                n = t.nodes[p[1]] if p[1] in t.nodes else t.facilities[p[1]]
                ops.append(['node', snap_node(n)])
            else:
                ops.append(['svc', snap_svc(t.network_services[p[1]])])
        out['ops'] = ops

        def sources():
            # fresh sliver objects for each collector: ResourceAuthZAttributes writes "UNKNOWN-SITE" into the
            # sliver it is handed (see notes/C11.md), which must not leak into the other collector's input
            src = []
            for p in desc['parts']:
                if p[0] == 'node':
                    n = t.nodes[p[1]] if p[1] in t.nodes else t.facilities[p[1]]
                    src.append(n.get_sliver() if p[2] else n)
                else:
                    ns = t.network_services[p[1]]
                    # a port mirror is handed out as a PortMirrorService object (routed since /repo 08ccccb)
                    src.append(ns.get_sliver() if p[2] else ns)
            return src
    try:
        az = ResourceAuthZAttributes()
        for s in sources():
            az.collect_resource_attributes(source=s)
        apply_extras(az, desc['extras'])
        out['attrs'] = attrs_list(az)
    except Exception as e:
        out['attrs'] = {'err': type(e).__name__}
        az = None
    if az is not None:
        try:
            out['pdp'] = parse_pdp(az.transform_to_pdp_request(return_policy_id_list=flags[0], combined_decision=flags[1]))
            d = az.transform_to_pdp_request(as_json=False, return_policy_id_list=flags[0], combined_decision=flags[1])
            if parse_pdp(json.dumps(d)) != out['pdp']:
                out['pdp'] = {'err': 'as_json differs'}
        except Exception as e:
            out['pdp'] = {'err': type(e).__name__}
    else:
        out['pdp'] = out['attrs']
    try:
        lc = LogCollector()
        for s in sources():
            lc.collect_resource_attributes(source=s)
        out['log'] = log_obs(lc)
        try:
            out['summary'] = parse_summary(str(lc))
        except Exception as e:
            out['summary'] = {'err': type(e).__name__}
    except Exception as e:
        out['log'] = {'err': type(e).__name__}
    if with_asm and desc['mode'] == 'topo':
        from fim.graph.slices.networkx_asm import NetworkXGraphImporter, NetworkXASMFactory
        from fim.graph.networkx_property_graph_disjoint import NetworkXGraphImporterDisjoint
        IMPORTERS = {'shared': NetworkXGraphImporter, 'disjoint': NetworkXGraphImporterDisjoint}

        def from_asm(ser, backend='shared'):
            """collect from an ASM made of the GraphML text `ser`, held by the given in-memory backend"""
            pg = IMPORTERS[backend]().import_graph_from_string(graph_string=ser)
            asm = NetworkXASMFactory.create(pg)
            az2 = ResourceAuthZAttributes()
            az2.collect_resource_attributes(source=asm)
            apply_extras(az2, desc['extras'])
            lc2 = LogCollector()
            lc2.collect_resource_attributes(source=asm)
            return attrs_list(az2), canon_log(log_obs(lc2))

        def more(ser, which):
            """further (model, backend) combinations, each judged by the oracle and (validated slices) by the model"""
            res = {}
            for backend in which:
                try:
                    al, lg = from_asm(ser, backend)
                    res[backend] = {'attrs': al, 'log': lg}
                except Exception as e:
                    res[backend] = {'err': type(e).__name__}
            return res
        every = bool(desc.get('asm_all'))
        if desc['validate']:
            try:
                post = t.serialize()
                al, lg = from_asm(post)
                out['asm'] = canon_attrs(al)
                out['asm_log'] = lg
                if not desc['extras']:
                    # the graph the ASM path walks: reproduce its reload (same calls) and read it through the API: an
                    # independently obtained enumeration of the same elements, from which the model (OAsm) must predict
                    # the ASM answer up to order (the component order of a reload is not reproducible: set of int ids)
                    from fim.user.topology import ExperimentTopology
                    pg = NetworkXGraphImporter().import_graph_from_string(graph_string=post)
                    asm = NetworkXASMFactory.create(pg)
                    t2 = ExperimentTopology(graph_string=asm.serialize_graph())
                    t2.validate()
                    lc3 = LogCollector()
                    lc3.collect_resource_attributes(source=asm)
                    out['asm_exact'] = {'snap': snapshot_api(t2), 'attrs': al, 'log': log_obs(lc3)}
            except Exception as e:
                out['asm'] = {'err': type(e).__name__}
            if out['validate'] == 'ok':
                # the model as a client submits it (serialized BEFORE validate() stored the inferred service sites), and
                # the one-graph-per-store backend: the ASM path must still agree with the validated topology object
                out['asm_pre'] = more(pre_ser, ['disjoint', 'shared'] if every else ['disjoint'])
                if every:
                    out['asm_post'] = more(post, ['disjoint'])
        else:
            # topology never validated: the ASM path validates its reloaded copy itself (sites of services inferred
            # there).  Judged by the oracle only (the model is not given the inferred sites), on both backends.
            try:
                al, lg = from_asm(pre_ser)
                out['asm_raw'] = al
            except Exception as e:
                out['asm_raw'] = {'err': type(e).__name__}
            out['asm_pre'] = more(pre_ser, ['disjoint'])
            try:
                t.validate()
                out['late_validate'] = 'ok'
            except Exception as e:
                out['late_validate'] = type(e).__name__
    return out


def canon_log(l):
    if 'err' in l:
        return l
    return {'nodes': sorted(l['nodes']), 'core': l['core'], 'vm': l['vm'], 'p4': l['p4'], 'comps': sorted(l['comps']),
            'svcs': sorted(l['svcs']), 'facs': l['facs'], 'sites': l['sites']}


def reset_stores():
    """the in-memory graph store is a process-wide singleton: empty it between builds"""
    try:
        from fim.graph.networkx_property_graph import NetworkXGraphImporter
        NetworkXGraphImporter().delete_all_graphs()
    except Exception:
        pass
    try:
        from fim.graph.networkx_property_graph_disjoint import NetworkXGraphImporterDisjoint
        NetworkXGraphImporterDisjoint().delete_all_graphs()
    except Exception:
        pass


# ------------------------------------------------------------------------------------------------
# Coq printers
# ------------------------------------------------------------------------------------------------

def py_val(o):
    if isinstance(o, bool):
        return 'VB ' + cbool(o)
    if isinstance(o, int):
        return 'VZ ' + cZ(o)
    if isinstance(o, str):
        if o in DICT_IDX:
            return 'VD ' + cN(DICT_IDX[o])
        return 'VS ' + cstr(o)
    if o is None:
        return 'VNone'
    if isinstance(o, dict) and 'err' in o:
        return 'VErr ' + cstr(o['err'])
    if isinstance(o, (list, tuple)):
        return 'VL ' + clist(['(' + py_val(x) + ')' for x in o])
    raise TypeError(o)


def c_ostr(s):
    return 'None' if s is None else '(Some %s)' % cstr(s)


def c_caps(c):
    return 'None' if c is None else '(Some (%s, %s, %s))' % (cZ(c[0]), cZ(c[1]), cZ(c[2]))


class Enums:
    _st = None
    _nt = None

    @classmethod
    def stype(cls, name):
        if cls._st is None:
            from fim.slivers.network_service import ServiceType
            cls._st = [m.name for m in ServiceType]
        return cls._st.index(name)

    @classmethod
    def ntype(cls, name):
        if cls._nt is None:
            from fim.slivers.network_node import NodeType
            cls._nt = [m.name for m in NodeType]
        return cls._nt.index(name)


def c_node(n):
    return '(mkNode %s %s %s %s %s %s)' % (cN(Enums.ntype(n['kind'])), cstr(n['name']), c_ostr(n['site']),
                                            c_caps(n['caps']), c_caps(n['alloc']), clist([cstr(c) for c in n['comps']]))


def c_svc(s):
    return '(mkSvc %s %s %s %s)' % (cN(Enums.stype(s['type'])), c_ostr(s['site']),
                                    'None' if s['bw'] is None else '(Some %s)' % cZ(s['bw']), c_ostr(s['mirror']))


def c_slice(sn):
    return '(mkSlice %s %s %s %s)' % (clist([c_node(n) for n in sn['nodes']]), clist([c_ostr(p) for p in sn['ports']]),
                                      clist([c_svc(s) for s in sn['svcs']]), clist([cstr(f) for f in sn['facs']]))


def c_sarg(a):
    if a is None:
        return 'SNone'
    if isinstance(a, str):
        return '(SOne %s)' % cstr(a)
    return '(SMany %s)' % clist([cstr(x) for x in a])


def c_extra(e):
    if e[0] == 'subject':
        return '(OSubject %s %s %s)' % (c_sarg(e[1]), c_sarg(e[2]), c_sarg(e[3]))
    if e[0] == 'action':
        return '(OAction %s)' % c_sarg(e[1])
    if e[0] == 'ressp':
        return '(OResSP %s %s)' % (c_sarg(e[1]), c_sarg(e[2]))
    if e[0] == 'lifetime':
        return '(OLifetime %s %s %s)' % (cZ(e[1]), cZ(e[2]), cZ(e[3]))
    raise ValueError(e)


def log_vals(lg):
    if isinstance(lg, dict) and 'err' not in lg:
        return [lg['nodes'], lg['core'], lg['vm'], lg['p4'], lg['comps'], lg['svcs'], lg['facs'], lg['sites']]
    return lg


def c_graph(sn):
    """the elements of a reloaded topology as an abstract graph, in its listing order"""
    return clist(['(GNode %s)' % c_node(n) for n in sn['nodes']] + ['(GPort %s)' % c_ostr(p) for p in sn['ports']] +
                 ['(GSvc %s)' % c_svc(v) for v in sn['svcs']] + ['(GFac %s)' % cstr(f) for f in sn['facs']])


def c_ops(desc, o):
    ops = []
    for op in (o['ops'] or []):
        if op[0] == 'topo':
            ops.append('(OTopo %s)' % c_slice(o['snap']))
        elif op[0] == 'node':
            ops.append('(ONode %s)' % c_node(op[1]))
        else:
            ops.append('(OSvc %s)' % c_svc(op[1]))
    return ops


def c_one(desc, o):
    """-> list of Coq ccase terms for one build"""
    ops = c_ops(desc, o)
    full = ops + [c_extra(e) for e in desc['extras']]
    obs = [o['attrs'], o['pdp'], log_vals(o['log']), o['asm']]
    out = ['(CFull %s %s %s (%s))' % (clist(full), cbool(desc['flags'][0]), cbool(desc['flags'][1]), py_val(obs))]
    if o.get('summary') is not None and isinstance(o['log'], dict) and 'err' not in o['log']:
        out.append('(CSummary %s (%s))' % (clist(ops), py_val(o['summary'])))
    if desc['validate'] and o.get('validate') == 'ok' and not desc['extras']:
        for grp in ('asm_pre', 'asm_post'):
            for backend, r in sorted((o.get(grp) or {}).items()):
                if 'err' not in r:
                    # another serialization moment / backend of the same slice: the topology snapshot predicts it up to order
                    out.append('(CCanon %s (%s) (%s))' % (clist(ops), py_val(r['attrs']), py_val(log_vals(r['log']))))
    if o.get('asm_exact'):
        ae = o['asm_exact']
        out.append('(CCanon [OAsm %s] (%s) (%s))' % (c_graph(ae['snap']), py_val(ae['attrs']), py_val(log_vals(ae['log']))))
    return out


# ------------------------------------------------------------------------------------------------
# the property, restated over the slice description (independent of the Coq model)
# ------------------------------------------------------------------------------------------------

def end_site(desc, end):
    if end[0] == 'fac':
        return desc['facs'][end[1]]['site']
    return desc['nodes'][end[1]]['site']


def expected(desc, validated):
    """what the authorization request must name, from the description of the slice"""
    nodes = [n for n in desc['nodes'] if not n.get('removed')]
    svcs = [s for s in desc['svcs'] if not s.get('removed')]
    facs = [f for f in desc['facs'] if not f.get('removed')]
    ex = {}
    ex['cpu'] = sorted(n['caps'][0] for n in nodes if n.get('caps'))
    ex['ram'] = sorted(n['caps'][1] for n in nodes if n.get('caps'))
    ex['disk'] = sorted(n['caps'][2] for n in nodes if n.get('caps'))
    ex['bw'] = sorted(s['bw'] for s in svcs if s['bw'] is not None)
    ex['component'] = sorted(MODELS[m][0] for n in nodes for m in n.get('comps', []))
    ex['facility'] = sorted(f['name'] for f in facs)
    ex['type'] = ['switch-p4'] if any(n['kind'] == 'Switch' for n in nodes) else ['sliver']
    need_sites = set(n['site'] for n in nodes)
    allowed = set(need_sites) | set(f['site'] for f in facs)
    labels = inslice_labels(desc)
    per = {k: set() for k in SPECIAL}
    for s in svcs:
        sites = set(end_site(desc, e) for e in s['ends'])
        if s['site'] is not None:
            ssite = s['site']
        elif validated and not s.get('novalidate') and len(sites) == 1:
            ssite = list(sites)[0]
        else:
            ssite = None
        if ssite is not None:
            need_sites.add(ssite) if s['site'] is not None else None
            allowed.add(ssite)
        if s['type'] in SPECIAL:
            if s['type'] == 'PortMirror' and s['mirror'] in labels:
                continue        # mirrored port is inside the slice: no mirror site needed
            per[s['type']].add(ssite if ssite is not None else 'UNKNOWN-SITE')
    ex['need_sites'], ex['allowed_sites'], ex['per'] = need_sites, allowed, per
    # accounting
    vms = [n for n in nodes if n['kind'] == 'VM']
    ex['vm'] = len(vms)
    ex['core'] = sum((n['alloc'] or n['caps'])[0] for n in vms if (n['alloc'] or n['caps']))
    ex['vmcaps'] = sorted((n['alloc'] or n['caps']) for n in vms if (n['alloc'] or n['caps']))
    ex['p4'] = sum(1 for n in nodes if n['kind'] == 'Switch')
    ex['compcount'] = dict(collections.Counter(MODELS[m][0] for n in nodes for m in n.get('comps', [])))
    sv = []
    for n in nodes:
        if n['kind'] == 'Switch':
            sv.append(['P4', 0])
        for m in n.get('comps', []):
            if MODELS[m][0] in IMPLICIT_NS:
                sv.append([IMPLICIT_NS[MODELS[m][0]], 0])
    sv += [['VLAN', 0] for _ in facs]
    sv += [[s['type'], s['bw'] if s['bw'] is not None else 0] for s in svcs]
    ex['svcs'] = sorted(sv)
    return ex


def expected_extras(extras):
    ex = collections.defaultdict(list)

    def add(k, a):
        if not a:
            return
        if isinstance(a, list):
            ex[k].extend(a)
        else:
            ex[k].append(a)
    for e in extras:
        if e[0] == 'subject':
            add(U['subject'], e[1]); add(U['sproject'], e[2]); add(U['tag'], e[3])
        elif e[0] == 'action':
            add(U['action'], e[1])
        elif e[0] == 'ressp':
            add(U['rsubject'], e[1]); add(U['rproject'], e[2])
        elif e[0] == 'lifetime':
            d, s = e[1], e[2]
            ex[U['lifetime']].append('P%dDT%dH%dM%dS' % (d, s // 3600, (s % 3600) // 60, s % 60))
    return dict(ex)


def check_pdp(attrs, pdp, flags):
    if isinstance(pdp, dict):
        return 'PDP request raised/differs: %s' % pdp.get('err')
    if pdp[0] != flags[0] or pdp[1] != flags[1]:
        return 'PDP flags not passed through'
    if [c[0] for c in pdp[2]] != CAT_ORDER:
        return 'PDP categories %r' % [c[0] for c in pdp[2]]
    seen = {}
    for cid, al in pdp[2]:
        for inc, val, aid, dt in al:
            if aid in seen:
                return 'attribute %s routed twice' % aid
            seen[aid] = (cid, val, dt, inc)
    am = dict((k, v) for k, v in attrs)
    if set(seen) != set(am):
        return 'PDP request attribute ids %r differ from the collected ones %r' % (sorted(seen), sorted(am))
    for k, (cid, val, dt, inc) in seen.items():
        if k not in PINNED:
            return 'attribute id %s is not a known XACML attribute' % k
        if (dt, cid) != PINNED[k]:
            return 'attribute %s routed to %s / %s' % (k, cid, dt)
        if val != am[k] or inc is not False:
            return 'attribute %s value list differs in the PDP request' % k
    return None


def check_authz(desc, o, with_pdp=True):
    """property over one observed build; returns None or what fails"""
    a = o['attrs']
    if isinstance(a, dict):
        return 'collection raised ' + a['err']
    validated = o['validate'] == 'ok'
    ex = expected(desc, validated)
    xe = expected_extras(desc['extras'])
    am = {}
    for k, v in a:
        if k in am:
            return 'attribute id listed twice'
        am[k] = v
        if not v:
            return 'empty value list for ' + k
        if k not in PINNED:
            return 'unknown attribute id ' + k
    for f in ('cpu', 'ram', 'disk', 'bw', 'component', 'facility'):
        got = sorted(am.get(U[f], []))
        if got != ex[f]:
            return '%s values %r, the slice has %r' % (f, got, ex[f])
    if am.get(U['type']) != ex['type']:
        return 'resource-type %r expected %r' % (am.get(U['type']), ex['type'])
    sites = am.get(U['site'], [])
    if len(set(sites)) != len(sites):
        return 'site listed twice'
    if not ex['need_sites'] <= set(sites):
        return 'site(s) %r used by the slice are missing from the request (has %r)' % (sorted(ex['need_sites'] - set(sites)), sites)
    if not set(sites) <= ex['allowed_sites']:
        return 'site(s) %r not used by the slice' % sorted(set(sites) - ex['allowed_sites'])
    for ty in SPECIAL:
        got = am.get(U[ty], [])
        if len(set(got)) != len(got):
            return '%s site listed twice' % ty
        if not ex['per'][ty] <= set(got):
            return '%s: site(s) %r needing authorization are missing (request has %r)' % (ty, sorted(ex['per'][ty] - set(got)), got)
        if not set(got) <= ex['per'][ty]:
            return '%s: site(s) %r listed but no such service needs them' % (ty, sorted(set(got) - ex['per'][ty]))
    for k, v in xe.items():
        if am.get(k) != v:
            return 'subject/action attribute %s is %r expected %r' % (k, am.get(k), v)
    extra_keys = set(am) - set(U[f] for f in ('type', 'cpu', 'ram', 'disk', 'bw', 'component', 'facility', 'site') + SPECIAL) - set(xe)
    if extra_keys:
        return 'spurious attribute ids %r' % sorted(extra_keys)
    return check_pdp(a, o['pdp'], desc['flags']) if with_pdp else None


def check_log(desc, o):
    l = o['log']
    if 'err' in l:
        return 'log collection raised ' + l['err']
    ex = expected(desc, o['validate'] == 'ok')
    if l['vm'] != ex['vm'] or l['core'] != ex['core'] or l['p4'] != ex['p4']:
        return 'log counts vm/core/p4 = %r/%r/%r, direct tally %r/%r/%r' % (l['vm'], l['core'], l['p4'], ex['vm'], ex['core'], ex['p4'])
    if sorted(l['nodes']) != ex['vmcaps']:
        return 'log VM capacities %r, direct tally %r' % (sorted(l['nodes']), ex['vmcaps'])
    if dict((k, v) for k, v in l['comps']) != ex['compcount'] or len(l['comps']) != len(ex['compcount']):
        return 'log components %r, direct tally %r' % (l['comps'], ex['compcount'])
    if sorted(l['svcs']) != ex['svcs']:
        return 'log services %r, direct tally %r' % (sorted(l['svcs']), ex['svcs'])
    if l['facs'] != sorted(f['name'] for f in desc['facs'] if not f.get('removed')):
        return 'log facilities %r' % l['facs']
    if not ex['need_sites'] <= set(l['sites']) or not set(l['sites']) <= ex['allowed_sites']:
        return 'log sites %r, slice uses %r' % (l['sites'], sorted(ex['need_sites']))
    return None


def check_parts(desc, o):
    """members collected one by one: everything the chosen members need is named; PDP routing"""
    a = o['attrs']
    if isinstance(a, dict):
        return 'collection raised ' + a['err']
    am = dict((k, v) for k, v in a)
    byname = {n['name']: n for n in desc['nodes']}
    bysvc = {s['name']: s for s in desc['svcs']}
    cpu, comp, bw = [], [], []
    for p in desc['parts']:
        if p[0] == 'node' and p[1] in byname:
            n = byname[p[1]]
            if n.get('caps'):
                cpu.append(n['caps'][0])
            comp += [MODELS[m][0] for m in n.get('comps', [])]
            if n['site'] not in am.get(U['site'], []):
                return 'site of node %s missing' % n['name']
        elif p[0] == 'svc' and p[1] in bysvc:
            s = bysvc[p[1]]
            if s['bw'] is not None:
                bw.append(s['bw'])
            if s['type'] in SPECIAL and not am.get(U[s['type']]):
                return '%s service %s collected alone contributes no site attribute' % (s['type'], s['name'])
    if sorted(am.get(U['cpu'], [])) != sorted(cpu) or sorted(am.get(U['component'], [])) != sorted(comp) \
            or sorted(am.get(U['bw'], [])) != sorted(bw):
        return 'member-wise collection: cpu/component/bw values differ from the members collected'
    if 'err' in o['log']:
        return 'log collection raised ' + o['log']['err']
    return check_pdp(a, o['pdp'], desc['flags'])


# ------------------------------------------------------------------------------------------------
# generator
# ------------------------------------------------------------------------------------------------

def gen_desc(rng, big=False, mirror_heavy=False):
    nsites = rng.choice([1, 1, 2, 2, 3]) if not mirror_heavy else rng.choice([1, 2, 2])
    sites = rng.sample(SITES, nsites)
    nn = rng.choice([1, 2, 2, 3, 3, 4] if not big else [3, 4, 5])
    if mirror_heavy:
        nn = rng.choice([2, 2, 3])
    nodes = []
    free = []        # free interfaces: (end, site, dedicated?)
    for i in range(nn):
        site = rng.choice(sites)
        r = rng.random() if not mirror_heavy else 0.5
        if r < 0.12:
            np_ = rng.choice([1, 2, 3])
            nodes.append({'name': 'sw%d' % i, 'kind': 'Switch', 'site': site, 'nports': np_})
            free += [(['sw', i, k], site, True) for k in range(np_)]
            continue
        kind = 'VM' if r < 0.92 else 'Server'
        caps = None if rng.random() < 0.2 else [rng.choice([1, 2, 2, 4, 8, 32]), rng.choice([0, 4, 8, 8, 64]), rng.choice([0, 10, 10, 100, 500])]
        alloc = None
        if rng.random() < 0.25:
            alloc = [rng.choice([2, 4, 8, 16]), rng.choice([8, 16]), rng.choice([10, 100])]
        comps = []
        for j in range(rng.choice([0, 1, 1, 2, 2, 3, 4]) if not mirror_heavy else 2):
            m = 'SmartNIC_ConnectX_6' if mirror_heavy and j < 2 and rng.random() < 0.9 else rng.choice(['SmartNIC_ConnectX_6', 'SmartNIC_ConnectX_6', 'SmartNIC_ConnectX_5', 'SharedNIC_ConnectX_6',
                            'GPU_RTX6000', 'GPU_Tesla_T4', 'NVME_P4510', 'FPGA_Xilinx_U280'])
            comps.append(m)
            _, nd, nsh = MODELS[m]
            if MODELS[m][0] != 'FPGA':
                free += [(['c', i, j, k], site, True) for k in range(nd)]
                free += [(['c', i, j, k], site, False) for k in range(nsh)]
        nodes.append({'name': 'n%d' % i, 'kind': kind, 'site': site, 'caps': caps, 'alloc': alloc, 'comps': comps})
    facs = []
    for i in range(rng.choice([0, 0, 0, 1, 1, 2])):
        facs.append({'name': 'FAC-%s-%d' % (rng.choice(sites), i), 'site': rng.choice(sites + [rng.choice(SITES)]),
                     'bw': rng.choice([None, 10, 100])})
    rng.shuffle(free)
    svcs = []
    fac_free = list(range(len(facs)))
    nsv = rng.choice([0, 1, 2, 3, 3, 4, 5] if not big else [4, 5, 6])
    mirror_names = rng.sample(PORTNAMES, rng.choice([1, 2, 2, 3]))
    types = ['PortMirror', 'PortMirror', 'PortMirror', 'FABNetv4Ext', 'FABNetv4Ext', 'FABNetv6Ext',
             'FABNetv4', 'FABNetv6', 'L3VPN', 'L2Bridge', 'L2Bridge', 'L2PTP', 'L2STS']
    plabel = 0.3
    if mirror_heavy:
        nsv = rng.choice([3, 4, 5, 6])
        mirror_names = rng.sample(PORTNAMES, rng.choice([1, 2]))
        types = ['PortMirror'] * 6 + ['FABNetv4Ext', 'FABNetv6Ext', 'FABNetv4Ext', 'L2Bridge']
        plabel = 0.45

    def take(pred):
        for idx, f in enumerate(free):
            if pred(f):
                return free.pop(idx)
        return None
    for k in range(nsv):
        ty = rng.choice(types)
        ends = []
        if ty == 'PortMirror':
            f = take(lambda f: f[2] and f[0][0] == 'c')
            if f is None:
                continue
            ends = [f]
        elif ty == 'L2PTP':
            f1 = take(lambda f: f[2] and f[0][0] == 'c')
            if f1 is None:
                continue
            f2 = take(lambda f: f[2] and f[0][0] == 'c' and f[0][1] != f1[0][1])
            if f2 is None:
                free.append(f1)
                continue
            ends = [f1, f2]
        elif ty == 'L2STS':
            f1 = take(lambda f: True)
            if f1 is None:
                continue
            ends = [f1]
            if fac_free and rng.random() < 0.6:
                fi = fac_free.pop()
                ends.append((['fac', fi], facs[fi]['site'], True))
            else:
                f2 = take(lambda f: True)
                if f2 is None:
                    free.append(f1)
                    continue
                ends.append(f2)
            if len(set(e[1] for e in ends)) > 2:
                continue
        else:
            f1 = take(lambda f: True)
            if f1 is None:
                continue
            ends = [f1]
            for _ in range(rng.choice([0, 0, 1, 2])):
                f2 = take(lambda f: f[1] == f1[1])
                if f2 is not None:
                    ends.append(f2)
        esites = set(e[1] for e in ends)
        site = None
        if len(esites) == 1 and rng.random() < 0.25:
            site = list(esites)[0]
        labels = []
        for ei in range(len(ends)):
            r = rng.random()
            if r < plabel:
                labels.append({'end': ei, 'name': rng.choice(mirror_names)})
            elif r < plabel + 0.06:
                labels.append({'end': ei, 'name': None})
        svcs.append({'name': 'svc%d' % k, 'type': ty, 'ends': [e[0] for e in ends],
                     'bw': rng.choice([None, None, 1, 10, 25, 100]), 'site': site,
                     'mirror': rng.choice(mirror_names + [rng.choice(PORTNAMES)] * (2 if mirror_heavy else 1)) if ty == 'PortMirror' else None,
                     'labels': labels})
    extras = []
    if rng.random() < 0.5:
        pool = [None, 'user@example.org', ['Project1'], ['P1', 'P2'], 'ProjX', [], '']
        extras.append(['subject', rng.choice([None, 'user@example.org', '']), rng.choice(pool), rng.choice(pool)])
    if rng.random() < 0.4:
        extras.append(['action', rng.choice(['create', 'modify', None, ''])])
    if rng.random() < 0.3:
        extras.append(['ressp', rng.choice([None, 'u2@example.org', ['a', 'b']]), rng.choice([None, 'Project1', ['P1', 'P3']])])
    if rng.random() < 0.3:
        extras.append(['lifetime', rng.choice([0, 1, 13, 400]), rng.choice([1, 59, 3600, 40024, 86399]), rng.choice([0, 10000])])
    rng.shuffle(extras)
    validate = rng.random() < 0.8
    if not validate and svcs and rng.random() < 0.5:
        # an explicit service site that is not the site of its interfaces (only meaningful without validate())
        rng.choice(svcs)['site'] = rng.choice(SITES)
    return {'nodes': nodes, 'facs': facs, 'svcs': svcs, 'validate': validate, 'extras': extras,
            'flags': [rng.random() < 0.2, rng.random() < 0.2], 'mode': 'topo', 'parts': []}


def gen_perms(desc, rng, tier):
    ni = len(desc['nodes']) + len(desc['facs'])
    ns = len(desc['svcs'])
    ident = {'items': list(range(ni)), 'svcs': list(range(ns))}
    out = [ident]
    seen = {json.dumps(ident)}

    def add(p):
        k = json.dumps(p)
        if k not in seen:
            seen.add(k)
            out.append(p)
    add({'items': list(range(ni)), 'svcs': list(reversed(range(ns)))})
    add({'items': list(reversed(range(ni))), 'svcs': list(range(ns))})
    multi = [i for i, n in enumerate(desc['nodes']) if len(n.get('comps', [])) >= 2]

    def comp_orders(how):
        out_ = {}
        for i in multi:
            o = list(range(len(desc['nodes'][i]['comps'])))
            if how == 'rev':
                o.reverse()
            else:
                rng.shuffle(o)
            out_[str(i)] = o
        return out_
    if multi:
        # the same node built with its components added in another order
        add({'items': list(range(ni)), 'svcs': list(range(ns)), 'comps': comp_orders('rev')})
    if tier == 'thorough' and ni <= 3 and ns <= 3:
        # exhaustive over both creation orders for small slices (<= 36 orders)
        for a in itertools.permutations(range(ni)):
            for b in itertools.permutations(range(ns)):
                add({'items': list(a), 'svcs': list(b)})
    elif tier == 'thorough' and ni <= 4 and ns <= 4:
        # every order of the nodes with the services fixed, every order of the services with the nodes fixed
        cand = [{'items': list(a), 'svcs': list(range(ns))} for a in itertools.permutations(range(ni))]
        cand += [{'items': list(range(ni)), 'svcs': list(b)} for b in itertools.permutations(range(ns))]
        rng.shuffle(cand)
        for p in cand[:36]:
            add(p)
    else:
        for _ in range(2 if tier == 'quick' else 6):
            a = list(range(ni)); b = list(range(ns))
            rng.shuffle(a); rng.shuffle(b)
            add({'items': a, 'svcs': b, 'comps': comp_orders('rnd') if rng.random() < 0.6 else {}})
    for p in out:
        p.setdefault('comps', {})
    return out


def gen_parts(desc, rng):
    d = copy.deepcopy(desc)
    d['mode'] = 'parts'
    parts = []
    for n in d['nodes']:
        if n['kind'] != 'Switch' or True:
            parts.append(['node', n['name'], rng.random() < 0.5])
    for f in d['facs']:
        parts.append(['node', f['name'], rng.random() < 0.5])
    for s in d['svcs']:
        parts.append(['svc', s['name'], rng.random() < 0.5])
    rng.shuffle(parts)
    d['parts'] = parts[:rng.choice([1, 2, 3, 5, 8])]
    d['perm'] = identity_perm(d)
    d['asm'] = False
    return d


def _obs_worker(case):
    """runs in a worker process: one build of one case with the real library"""
    if case.get('mode') == 'history':
        o = observe_history(case)
    else:
        o = observe_one(case, case['perm'], case.get('asm', False))
    reset_stores()
    return o


def precompute(cases):
    """observe the generated cases in VERIF_JOBS worker processes (each build is independent; the in-memory
    graph store is per process).  Returns {case hash: observation}."""
    import multiprocessing as mp
    n = max(1, min(common.NPROC, len(cases)))
    if n == 1 or len(cases) < 8:
        return {}
    try:
        ctx = mp.get_context('fork')
        with ctx.Pool(n) as pool:
            obs = pool.map(_obs_worker, cases, chunksize=1)
        return {stable_hash(c): o for c, o in zip(cases, obs)}
    except Exception as e:      # fall back to in-process observation
        log('C11: worker pool failed (%r), observing in process' % (e,))
        return {}


def desc_key(case):
    return stable_hash({k: case[k] for k in ('nodes', 'facs', 'svcs', 'validate', 'extras', 'flags', 'mode', 'parts')})


def identity_perm(case):
    return {'items': list(range(len(case['nodes']) + len(case['facs']))), 'svcs': list(range(len(case['svcs']))), 'comps': {}}


def is_identity(case):
    p = case['perm']
    i = identity_perm(case)
    return p['items'] == i['items'] and p['svcs'] == i['svcs'] and not any(
        v != sorted(v) for v in (p.get('comps') or {}).values())


class Slices(Stream):
    name = 'slices'
    header = ('From Coq Require Import List ZArith NArith Bool.\nImport ListNotations.\n'
              'From FIM Require Import Base.Str Model.Collect11.\n')
    case_type = 'list ccase'
    check_fn = 'check11_cases'
    shard = 60
    rule = ('one case = one slice description built in ONE creation order (field perm) with the real ExperimentTopology '
            'API; each description is built in several orders: identity, services reversed, nodes reversed, 2 random '
            '(thorough: ALL orders of nodes x services when <=3 nodes+facilities and <=3 services, all node orders and '
            'all service orders separately (36 sampled) when <=4/<=4, else 6 random) and the oracle compares every '
            'order with the identity order; every 4th description also yields a member-wise collection case '
            '(Node/NodeSliver/NetworkService/NetworkServiceSliver sources); every build is compared with the model '
            'exactly (key and value order), through the PDP JSON, the log dictionary and, for validated slices '
            '(first and last order), through the serialized ASM; non-trivial = at least one '
            'PortMirror/FABNetv4Ext/FABNetv6Ext service or two sites; distinct by (description, order)')

    def __init__(self):
        self.base = {}        # description hash -> observation of the identity order
        self.cache = {}       # case hash -> observation computed by a worker process

    def gen(self, rng, tier):
        n = int(os.environ.get('C11_N') or (40 if tier == 'quick' else 150))
        out = []
        for i in range(n):
            d = gen_desc(rng, big=(tier == 'thorough' and i % 5 == 0), mirror_heavy=(i % 3 == 0))
            perms = gen_perms(d, rng, tier)
            for j, p in enumerate(perms):
                c = copy.deepcopy(d)
                c['perm'] = p
                c['asm'] = bool(j in (0, len(perms) - 1))
                c['asm_all'] = bool(tier == 'thorough' and j == 0)
                out.append(c)
            if i % 4 == 0:
                out.append(gen_parts(d, rng))
        self.cache.update(precompute(out))
        return out

    def corpus(self):
        out = []
        if os.environ.get('C11_NO_CORPUS'):      # developer aid: judge the generator alone
            return out
        for p in sorted(x for x in glob.glob(os.path.join(VERIF, 'corpus', 'C11', '*.json')) if not os.path.basename(x).startswith('hist_')):
            with open(p) as f:
                d = json.load(f)
            for c in (d if isinstance(d, list) else [d]):
                c['perm'].setdefault('comps', {})
                out.append(c)
        return out

    def observe(self, case):
        o = self.cache.pop(stable_hash(case), None)
        if o is None:
            o = observe_one(case, case['perm'], case.get('asm', False))
            reset_stores()
        if is_identity(case):
            self.base[desc_key(case)] = o
        return o

    def base_obs(self, case):
        k = desc_key(case)
        if k not in self.base:
            self.base[k] = observe_one(case, identity_perm(case), False)
            reset_stores()
        return self.base[k]

    def to_coq(self, case, o):
        return clist(c_one(case, o))

    def oracle(self, case, o):
        if isinstance(o['attrs'], dict) and o['attrs'].get('err', '').startswith('build:'):
            return None      # the description could not be built (generator artefact), nothing to judge
        if case['mode'] == 'parts':
            return check_parts(case, o)
        if case['validate'] and o['validate'] != 'ok':
            return None      # description rejected by validate(): outside the quantified domain
        if not o['snap']['ports_agree']:
            return 'in-slice port labels seen through the API differ from the labels set'
        w = check_authz(case, o) or check_log(case, o)
        if w:
            return w
        if o['asm'] is not None:
            if isinstance(o['asm'], dict):
                return 'collection from the serialized model raised %s' % o['asm']['err']
            if o['asm'] != canon_attrs(o['attrs']):
                return 'attributes collected from the serialized model differ from those of the topology object'
            if o['asm_log'] is not None and o['asm_log'] != canon_log(o['log']):
                return 'accounting summary collected from the serialized model differs'
        valid = (o['validate'] == 'ok') if case['validate'] else (o.get('late_validate') == 'ok')
        for grp, when in (('asm_pre', 'before validate()'), ('asm_post', 'after validate()')):
            for backend, r in sorted((o.get(grp) or {}).items()):
                if not valid:
                    continue
                where = 'serialized model (%s, %s store)' % (when, backend)
                if 'err' in r:
                    return 'collection from the %s raised %s' % (where, r['err'])
                if case['validate']:
                    if canon_attrs(r['attrs']) != canon_attrs(o['attrs']):
                        return 'attributes collected from the %s differ from those of the validated topology object' % where
                    if r['log'] != canon_log(o['log']):
                        return 'accounting summary collected from the %s differs' % where
                else:
                    w = check_authz(case, {'attrs': r['attrs'], 'validate': 'ok', 'pdp': None}, with_pdp=False)
                    if w:
                        return 'collected from the %s: %s' % (where, w)
        if o.get('asm_raw') is not None and o.get('late_validate') == 'ok':
            if isinstance(o['asm_raw'], dict):
                return 'collection from the serialized model of a valid (not yet validated) slice raised %s' % o['asm_raw']['err']
            w = check_authz(case, {'attrs': o['asm_raw'], 'validate': 'ok', 'pdp': None}, with_pdp=False)
            if w:
                return 'collected from the serialized model (which validates its copy): ' + w
        if not is_identity(case):
            b = self.base_obs(case)
            if canon_attrs(o['attrs']) != canon_attrs(b['attrs']):
                return 'creation order %s gives different authorization attributes than the identity order' % json.dumps(case['perm'])
            if canon_log(o['log']) != canon_log(b['log']):
                return 'creation order %s gives a different accounting summary than the identity order' % json.dumps(case['perm'])
        return None

    def key(self, case, o):
        special = sum(1 for s in case['svcs'] if s['type'] in SPECIAL)
        nsites = len(set(n['site'] for n in case['nodes']))
        if special >= 1 or nsites >= 2:
            return stable_hash([desc_key(case), case['perm']])
        return None

    def describe(self, case, o):
        return {'case': {k: case[k] for k in ('nodes', 'facs', 'svcs', 'validate', 'mode', 'perm')},
                'impl': {k: o[k] for k in ('attrs', 'log', 'validate')}}

    def histogram(self, cases, obs):
        h = collections.Counter()
        descs = set()
        for c, o in zip(cases, obs):
            h['builds'] += 1
            h['mode_' + c['mode']] += 1
            h['asm_collections'] += (1 if (o['asm'] is not None or o.get('asm_raw') is not None) else 0) + len(o.get('asm_pre') or {}) + len(o.get('asm_post') or {})
            h['asm_disjoint_backend'] += sum(1 for g_ in ('asm_pre', 'asm_post') if 'disjoint' in (o.get(g_) or {}))
            h['asm_serialized_before_validate'] += len(o.get('asm_pre') or {}) + (1 if o.get('asm_raw') is not None else 0)
            h['order_identity' if is_identity(c) else 'order_permuted'] += 1
            h['component_order_permuted'] += 1 if any(v != sorted(v) for v in (c['perm'].get('comps') or {}).values()) else 0
            h['validated'] += 1 if c['validate'] else 0
            h['validate_rejected'] += 1 if (c['validate'] and o['validate'] != 'ok') else 0
            h['build_failed'] += 1 if (isinstance(o['attrs'], dict) and str(o['attrs'].get('err', '')).startswith('build:')) else 0
            h['unknown_site'] += 1 if 'UNKNOWN-SITE' in repr(o['attrs']) else 0
            k = desc_key(c)
            if k in descs:
                continue
            descs.add(k)
            h['descriptions'] += 1
            for s in c['svcs']:
                h['svc_' + s['type']] += 1
            labels = inslice_labels(c)
            h['mirror_in_slice'] += sum(1 for s in c['svcs'] if s['type'] == 'PortMirror' and s['mirror'] in labels)
            h['mirror_out_of_slice'] += sum(1 for s in c['svcs'] if s['type'] == 'PortMirror' and s['mirror'] not in labels)
            h['nodes_%d' % len(c['nodes'])] += 1
            h['facilities'] += len(c['facs'])
            h['switches'] += sum(1 for n in c['nodes'] if n['kind'] == 'Switch')
            # in-slice and out-of-slice mirrors in one slice (the shape of the fixed defect c22c27e)
            ms = [s for s in c['svcs'] if s['type'] == 'PortMirror']
            ins = [s for s in ms if s['mirror'] in labels]
            outs = [s for s in ms if s['mirror'] not in labels]
            h['desc_with_in_and_out_mirror'] += 1 if (ins and outs) else 0
            for ty in ('FABNetv4Ext', 'FABNetv6Ext', 'PortMirror'):
                per_site = collections.Counter(end_site(c, s['ends'][0]) for s in c['svcs'] if s['type'] == ty)
                h['desc_several_%s_one_site' % ty] += 1 if any(v >= 2 for v in per_site.values()) else 0
            h['extras'] += len(c['extras'])
        return dict(h)

    def known_signature(self, case, o, why):
        return why or ''

    def shrink(self, case, failing):
        case = copy.deepcopy(case)

        def attempt(c2):
            try:
                return failing(c2)
            except Exception:
                return False
        if case['extras']:
            c2 = copy.deepcopy(case); c2['extras'] = []
            if attempt(c2):
                case = c2
        # drop services (the order is over indices: renumber)
        changed = True
        while changed:
            changed = False
            for k in range(len(case['svcs'])):
                c2 = copy.deepcopy(case)
                name = c2['svcs'][k]['name']
                del c2['svcs'][k]
                c2['perm']['svcs'] = [x - (1 if x > k else 0) for x in c2['perm']['svcs'] if x != k]
                c2['parts'] = [p for p in c2['parts'] if not (p[0] == 'svc' and p[1] == name)]
                if attempt(c2):
                    case = c2
                    changed = True
                    break
        # drop facilities that no service uses
        for fi in range(len(case['facs']) - 1, -1, -1):
            if any(e[0] == 'fac' for s in case['svcs'] for e in s['ends']):
                break
            c2 = copy.deepcopy(case)
            del c2['facs'][fi]
            gi = len(case['nodes']) + fi
            c2['perm']['items'] = [x - (1 if x > gi else 0) for x in c2['perm']['items'] if x != gi]
            if attempt(c2):
                case = c2
        # the identity order, if it fails too
        c2 = copy.deepcopy(case); c2['perm'] = identity_perm(case)
        if attempt(c2):
            case = c2
        for n in case['nodes']:
            if n.get('alloc') is not None:
                old = n['alloc']; n['alloc'] = None
                if not attempt(case):
                    n['alloc'] = old
        for s in case['svcs']:
            for li in range(len(s['labels']) - 1, -1, -1):
                old = s['labels'].pop(li)
                if not attempt(case):
                    s['labels'].insert(li, old)
            if s['bw'] is not None:
                old = s['bw']; s['bw'] = None
                if not attempt(case):
                    s['bw'] = old
        if case.get('asm'):
            case['asm'] = False
            if not attempt(case):
                case['asm'] = True
        return case


# ------------------------------------------------------------------------------------------------
# histories: ONE long-lived topology that is edited, ONE long-lived collector pair
# ------------------------------------------------------------------------------------------------

def free_ports(cur):
    """interfaces of live nodes not used by a live service: (end, site, dedicated?)"""
    used = set(json.dumps(e) for s in cur['svcs'] if not s.get('removed') for e in s['ends'])
    out = []
    for i, n in enumerate(cur['nodes']):
        if n.get('removed'):
            continue
        if n['kind'] == 'Switch':
            out += [(['sw', i, k], n['site'], True) for k in range(n['nports'])]
            continue
        for j, m in enumerate(n['comps']):
            ty, nd, nsh = MODELS[m]
            if ty != 'FPGA':
                out += [(['c', i, j, k], n['site'], True) for k in range(nd)]
                out += [(['c', i, j, k], n['site'], False) for k in range(nsh)]
    return [f for f in out if json.dumps(f[0]) not in used]


def gen_history(rng):
    base = gen_desc(rng, mirror_heavy=rng.random() < 0.5)
    base['extras'] = []
    base['mode'] = 'history'
    base['perm'] = identity_perm(base)
    base['asm'] = False
    cur = copy.deepcopy(base)
    steps, states = [['collect']], [copy.deepcopy(cur)]
    names = PORTNAMES
    nsteps = rng.choice([3, 4, 5, 6])
    k = 0
    while k < nsteps:
        k += 1
        live_nodes = [i for i, n in enumerate(cur['nodes']) if not n.get('removed')]
        live_svcs = [i for i, v in enumerate(cur['svcs']) if not v.get('removed')]
        used_nodes = set(e[1] for i in live_svcs for e in cur['svcs'][i]['ends'] if e[0] in ('c', 'sw'))
        used_facs = set(e[1] for i in live_svcs for e in cur['svcs'][i]['ends'] if e[0] == 'fac')
        kind = rng.choice(['add_node', 'add_comp', 'add_svc', 'add_svc', 'label', 'label', 'remove_svc', 'add_fac',
                           'remove_fac', 'remove_node', 'set_caps', 'set_site', 'collect_only'])
        ed = None
        if kind == 'add_node':
            i = len(cur['nodes'])
            nd = {'name': 'h%d' % i, 'kind': 'VM', 'site': rng.choice(SITES), 'caps': [rng.choice([1, 2, 4]), rng.choice([4, 8]), rng.choice([10, 100])],
                  'alloc': None, 'comps': [rng.choice(['SmartNIC_ConnectX_6', 'GPU_RTX6000', 'NVME_P4510'])]}
            cur['nodes'].append(nd)
            ed = ['add_node', copy.deepcopy(nd)]
        elif kind == 'add_comp':
            vms = [i for i in live_nodes if cur['nodes'][i]['kind'] != 'Switch']
            if vms:
                i = rng.choice(vms)
                m = rng.choice(['SmartNIC_ConnectX_6', 'SmartNIC_ConnectX_5', 'GPU_Tesla_T4', 'NVME_P4510'])
                cur['nodes'][i]['comps'].append(m)
                ed = ['add_comp', i, len(cur['nodes'][i]['comps']) - 1, m]
        elif kind == 'add_svc':
            fp = free_ports(cur)
            ded = [f for f in fp if f[2] and f[0][0] == 'c']
            ty = rng.choice(['PortMirror', 'PortMirror', 'FABNetv4Ext', 'FABNetv6Ext', 'L2Bridge'])
            f = rng.choice(ded) if (ty == 'PortMirror' and ded) else (rng.choice(fp) if fp and ty != 'PortMirror' else None)
            if f is not None:
                labs = [x for x in inslice_labels(cur) if x]
                sd = {'name': 'hs%d' % len(cur['svcs']), 'type': ty, 'ends': [f[0]], 'bw': rng.choice([None, 10, 25]),
                      'site': rng.choice([None, None, f[1]]),
                      'mirror': (rng.choice((labs or names) + names[:2]) if ty == 'PortMirror' else None),
                      'labels': ([{'end': 0, 'name': rng.choice(names[:3])}] if rng.random() < 0.3 else []),
                      'novalidate': True}
                cur['svcs'].append(sd)
                ed = ['add_svc', copy.deepcopy(sd)]
        elif kind == 'label':
            # give a service port the name some mirror service mirrors: the exemption of that mirror flips
            cands = [(i, e) for i in live_svcs for e in range(len(cur['svcs'][i]['ends']))
                     if not any(l['end'] == e for l in cur['svcs'][i]['labels'])]
            mirrored = [cur['svcs'][i]['mirror'] for i in live_svcs if cur['svcs'][i]['type'] == 'PortMirror']
            if cands:
                i, e = rng.choice(cands)
                nm = rng.choice(mirrored) if (mirrored and rng.random() < 0.8) else rng.choice(names)
                cur['svcs'][i]['labels'].append({'end': e, 'name': nm})
                ed = ['label', i, e, nm]
        elif kind == 'remove_svc' and live_svcs:
            i = rng.choice(live_svcs)
            cur['svcs'][i]['removed'] = True
            ed = ['remove_svc', i]
        elif kind == 'add_fac':
            fd = {'name': 'HFAC-%d' % len(cur['facs']), 'site': rng.choice(SITES), 'bw': None}
            cur['facs'].append(fd)
            ed = ['add_fac', copy.deepcopy(fd)]
        elif kind == 'remove_fac':
            c = [i for i, f in enumerate(cur['facs']) if not f.get('removed') and i not in used_facs]
            if c:
                i = rng.choice(c)
                cur['facs'][i]['removed'] = True
                ed = ['remove_fac', i]
        elif kind == 'remove_node':
            c = [i for i in live_nodes if i not in used_nodes]
            if c and len(live_nodes) > 1:
                i = rng.choice(c)
                cur['nodes'][i]['removed'] = True
                ed = ['remove_node', i]
        elif kind == 'set_caps':
            vms = [i for i in live_nodes if cur['nodes'][i]['kind'] != 'Switch']
            if vms:
                i = rng.choice(vms)
                caps = [rng.choice([1, 6, 16]), rng.choice([2, 12]), rng.choice([20, 200])]
                cur['nodes'][i]['caps'] = caps
                ed = ['set_caps', i, caps]
        elif kind == 'set_site':
            c = [i for i in live_nodes if i not in used_nodes and cur['nodes'][i]['kind'] != 'Switch'
                 and not any(MODELS[m][0] in IMPLICIT_NS for m in cur['nodes'][i]['comps'])]
            if c:
                i = rng.choice(c)
                st_ = rng.choice(SITES)
                cur['nodes'][i]['site'] = st_
                ed = ['set_site', i, st_]
        if ed is not None:
            steps.append(ed)
        steps.append(['collect'])
        states.append(copy.deepcopy(cur))
    base['steps'] = steps
    base['states'] = states
    return base


def apply_edit(t, cur, ed):
    """apply one edit to the live topology; cur = description BEFORE the edit (indices are stable)"""
    from fim.slivers.capacities_labels import Capacities, Labels
    from fim.user.component import ComponentModelType
    from fim.slivers.network_service import ServiceType
    from fim.slivers.network_node import NodeType

    def node_obj(i):
        return t.nodes[cur['nodes'][i]['name']]

    def iface(end):
        if end[0] == 'c':
            return node_obj(end[1]).components['c%d' % end[2]].interface_list[end[3]]
        if end[0] == 'sw':
            return node_obj(end[1]).interface_list[end[2]]
        return t.facilities[cur['facs'][end[1]]['name']].interface_list[0]
    k = ed[0]
    if k == 'add_node':
        nd = ed[1]
        n = t.add_node(name=nd['name'], site=nd['site'], ntype=NodeType[nd['kind']], capacities=_caps(nd['caps']))
        for j, m in enumerate(nd['comps']):
            n.add_component(name='c%d' % j, model_type=ComponentModelType[m])
    elif k == 'add_comp':
        node_obj(ed[1]).add_component(name='c%d' % ed[2], model_type=ComponentModelType[ed[3]])
    elif k == 'add_svc':
        sd = ed[1]
        kw = {}
        if sd['bw'] is not None:
            kw['capacities'] = Capacities(bw=sd['bw'])
        if sd['site'] is not None:
            kw['site'] = sd['site']
        if sd['type'] == 'PortMirror':
            ns = t.add_port_mirror_service(name=sd['name'], from_interface_name=sd['mirror'], to_interface=iface(sd['ends'][0]), **kw)
        else:
            ns = t.add_network_service(name=sd['name'], nstype=ServiceType[sd['type']], interfaces=[iface(e) for e in sd['ends']], **kw)
        for lab in sd['labels']:
            ns.interface_list[lab['end']].labels = Labels(local_name=lab['name'])
    elif k == 'label':
        ns = t.network_services[cur['svcs'][ed[1]]['name']]
        target = iface(cur['svcs'][ed[1]]['ends'][ed[2]]).node_id
        sp = [x for x in ns.interface_list if x.get_peers() and x.get_peers()[0].node_id == target]
        sp[0].labels = Labels(local_name=ed[3])
    elif k == 'remove_svc':
        t.remove_network_service(cur['svcs'][ed[1]]['name'])
    elif k == 'add_fac':
        t.add_facility(name=ed[1]['name'], site=ed[1]['site'])
    elif k == 'remove_fac':
        t.remove_facility(name=cur['facs'][ed[1]]['name'])
    elif k == 'remove_node':
        t.remove_node(cur['nodes'][ed[1]]['name'])
    elif k == 'set_caps':
        node_obj(ed[1]).set_property('capacities', _caps(ed[2]))
    elif k == 'set_site':
        node_obj(ed[1]).site = ed[2]
    else:
        raise ValueError(ed)


def observe_history(desc):
    """-> {'collects': [per collect step {...}], 'err': ...}"""
    from fim.authz.attribute_collector import ResourceAuthZAttributes
    from fim.logging.log_collector import LogCollector
    out = {'collects': [], 'err': None, 'validate': None}
    try:
        t, _ = build(desc, desc['perm'])
        if desc['validate']:
            try:
                t.validate()
                out['validate'] = 'ok'
            except Exception as e:
                out['validate'] = type(e).__name__
        az_long, lc_long = ResourceAuthZAttributes(), LogCollector()
        az_early = ResourceAuthZAttributes()      # created before any edit, used once at the very end
        ci = 0
        ncollect = sum(1 for s_ in desc['steps'] if s_[0] == 'collect')
        for st in desc['steps']:
            if st[0] != 'collect':
                try:
                    apply_edit(t, desc['states'][ci - 1], st)
                except Exception as e:      # the topology API refused the edit: generator artefact, not the collectors
                    out['err'] = 'edit:' + type(e).__name__ + ':' + str(e)[:200]
                    return out
                continue
            cur = desc['states'][ci]
            ci += 1
            o = {'snap': snapshot(t, cur)}
            az_long.collect_resource_attributes(source=t)
            lc_long.collect_resource_attributes(source=t)
            o['long'] = attrs_list(az_long)
            o['long_log'] = log_obs(lc_long)
            az = ResourceAuthZAttributes()
            az.collect_resource_attributes(source=t)
            lc = LogCollector()
            lc.collect_resource_attributes(source=t)
            o['attrs'] = attrs_list(az)
            o['pdp'] = parse_pdp(az.transform_to_pdp_request())
            o['log'] = log_obs(lc)
            o['summary'] = parse_summary(str(lc))
            az.collect_resource_attributes(source=t)     # twice in a row on the same collector
            lc.collect_resource_attributes(source=t)
            o['twice'] = attrs_list(az)
            o['twice_log'] = log_obs(lc)
            o['early'] = None
            if ci == ncollect:
                az_early.collect_resource_attributes(source=t)
                o['early'] = attrs_list(az_early)
            o['validate'] = out['validate']
            out['collects'].append(o)
    except Exception as e:
        out['err'] = type(e).__name__ + ':' + str(e)[:200]
    return out


def accumulate(maps):
    """what ONE collector holds after it was fed the slices whose fresh answers are `maps` (independent restatement of the
    documented accumulation: per-resource lists concatenate, site lists are unions without duplicates, switch-p4 sticks)"""
    acc = collections.OrderedDict()
    setk = {U['site'], U['PortMirror'], U['FABNetv4Ext'], U['FABNetv6Ext']}
    for m in maps:
        for k, v in m:
            if k == U['type']:
                if k not in acc or v == ['switch-p4']:
                    acc[k] = list(v)
            elif k in setk:
                cur = acc.setdefault(k, [])
                for x in v:
                    if x not in cur:
                        cur.append(x)
            else:
                acc.setdefault(k, []).extend(v)
    return canon_attrs([[k, v] for k, v in acc.items()])


class Histories(Stream):
    name = 'histories'
    header = Slices.header
    case_type = 'list ccase'
    check_fn = 'check11_cases'
    shard = 3
    rule = ('one case = ONE long-lived ExperimentTopology, built from a generated description and then EDITED 3-6 times '
            '(add/remove node, component, service, facility; change capacities / site; label a service port with the name a '
            'mirror service mirrors so that its exemption flips), with a collection after every edit by: the SAME '
            'long-lived ResourceAuthZAttributes/LogCollector, a fresh pair, the fresh pair a second time in a row, and '
            '(last step) a collector created before the first edit; the model gets the current slices in storage order '
            'and predicts all of them exactly; non-trivial = at least one edit changed the fresh answer; distinct by history')

    def __init__(self):
        self.cache = {}

    def gen(self, rng, tier):
        n = int(os.environ.get('C11_NH') or (14 if tier == 'quick' else 150))
        out = [gen_history(rng) for _ in range(n)]
        self.cache.update(precompute(out))
        return out

    def corpus(self):
        out = []
        if os.environ.get('C11_NO_CORPUS'):
            return out
        for p in sorted(glob.glob(os.path.join(VERIF, 'corpus', 'C11', 'hist_*.json'))):
            with open(p) as f:
                out.append(json.load(f))
        return out

    def observe(self, case):
        o = self.cache.pop(stable_hash(case), None)
        if o is None:
            o = observe_history(case)
            reset_stores()
        return o

    def to_coq(self, case, o):
        terms = []
        snaps = []
        for c in o['collects']:
            snaps.append('(OTopo %s)' % c_slice(c['snap']))
            obs = [c['attrs'], c['pdp'], log_vals(c['log']), None]
            terms.append('(CFull [%s] false false (%s))' % (snaps[-1], py_val(obs)))
            terms.append('(CSummary [%s] (%s))' % (snaps[-1], py_val(c['summary'])))
            terms.append('(CAttrsLog %s (%s) (%s))' % (clist(snaps), py_val(c['long']), py_val(log_vals(c['long_log']))))
            terms.append('(CAttrsLog [%s; %s] (%s) (%s))' % (snaps[-1], snaps[-1], py_val(c['twice']), py_val(log_vals(c['twice_log']))))
            if c['early'] is not None:
                terms.append('(CAttrsLog [%s] (%s) (%s))' % (snaps[-1], py_val(c['early']), py_val(log_vals(c['log']))))
        if o['err'] and not o['collects']:
            terms.append('(CSummary [] (VNone))' if False else '(CAttrsLog [] (%s) (%s))' % (
                py_val([[U['type'], ['sliver']]]), py_val([[], 0, 0, 0, [], [], [], []])))
        return clist(terms)

    def oracle(self, case, o):
        if o['err']:
            if o['err'].startswith('edit:'):
                return None       # the topology API refused an edit of the script (generator artefact)
            return 'history raised ' + o['err']
        if case['validate'] and o['validate'] != 'ok':
            return None
        fresh = []
        for i, c in enumerate(o['collects']):
            cur = case['states'][i]
            d = dict(cur); d['extras'] = []; d['flags'] = [False, False]
            if not c['snap']['ports_agree']:
                return 'collect %d: in-slice port labels seen through the API differ from the labels set' % i
            w = check_authz(d, c) or check_log(d, c)
            if w:
                return 'collect %d (fresh collector, after %s): %s' % (i, json.dumps(self.edits_before(case, i))[:300], w)
            fresh.append(c['attrs'])
            if canon_attrs(c['long']) != accumulate(fresh):
                return ('collect %d: the long-lived collector does not hold exactly the accumulation of the %d slices it '
                        'was fed' % (i, i + 1))
            if canon_attrs(c['twice']) != accumulate([c['attrs'], c['attrs']]):
                return 'collect %d: collecting twice in a row is not the accumulation of the same slice twice' % i
            if c['early'] is not None and c['early'] != c['attrs']:
                return 'collect %d: a collector created before the edits answers differently from a fresh one' % i
        return None

    @staticmethod
    def edits_before(case, i):
        out, ci = [], 0
        for st in case['steps']:
            if st[0] == 'collect':
                ci += 1
                if ci > i:
                    break
            else:
                out.append(st[:2] if st[0] in ('add_node', 'add_svc', 'add_fac') else st)
        return out

    def key(self, case, o):
        cs = [canon_attrs(c['attrs']) for c in o['collects']]
        if len(cs) >= 2 and any(a != b for a, b in zip(cs, cs[1:])):
            return stable_hash([case['nodes'], case['svcs'], case['facs'], case['steps']])
        return None

    def describe(self, case, o):
        return {'case': {'nodes': case['nodes'], 'svcs': case['svcs'], 'steps': case['steps']},
                'impl_last_collect': ({k: o['collects'][-1][k] for k in ('attrs', 'long')} if o['collects'] else o['err'])}

    def histogram(self, cases, obs):
        h = collections.Counter()
        for c, o in zip(cases, obs):
            h['histories'] += 1
            h['collects'] += len(o['collects'])
            h['script_not_applicable'] += 1 if o['err'] else 0
            for st in c['steps']:
                h['step_' + st[0]] += 1
            # exemption flips: a mirror site present at one collect and absent at the next (or the reverse)
            ms = [dict(x['attrs']).get(U['PortMirror'], []) for x in o['collects']]
            h['mirror_site_set_changed'] += sum(1 for a, b in zip(ms, ms[1:]) if a != b)
        return dict(h)

    def shrink(self, case, failing):
        case = copy.deepcopy(case)
        # drop trailing steps while the failure persists
        while True:
            idx = [i for i, s_ in enumerate(case['steps']) if s_[0] == 'collect']
            if len(idx) <= 1:
                break
            c2 = copy.deepcopy(case)
            c2['steps'] = case['steps'][:idx[-2] + 1]
            c2['states'] = case['states'][:len(idx) - 1]
            try:
                ok = failing(c2)
            except Exception:
                ok = False
            if not ok:
                break
            case = c2
        return case


class C11(Check):
    pid = 'C11'
    translators = ['gen_collect']
    model_targets = ['Model/Collect11.vo']
    streams = [Slices(), Histories()]
    trusted_base = [
        'Coq 8.16.1 kernel (coqc), vm_compute for the correspondence evaluation; no native_compute',
        'Print Assumptions of every C11 theorem: Closed under the global context (no axioms)',
        'translator/gen_collect.py + translator/pyast.py (Python ast -> Gen/CollectGen.v: attribute ids, types/categories, '
        'NSTYPE_LUT, service-type set, exempted type, PDP categories, METHOD_LUTs, enum members), fail-closed',
        'harness/c11.py + harness/common.py: slice generator, abstraction of a built topology to the abstract slice '
        '(storage order read through topo.nodes / network_services / facilities / node.components; in-slice port labels '
        'taken from the description and cross-checked with the API), cases.v writer',
        'Model/Collect11.v is a hand transcription of _collect_attributes_from_{node_sliver,ns_sliver,topo}, set_*, '
        'transform_to_pdp_request and of LogCollector; tied by the correspondence, not derived mechanically',
        'modelled not verified: defaultdict(list) / dict insertion order, list membership (==), json.dumps/json.loads of the '
        'PDP dictionary, GraphML serialization + reload + validate() of the ASM path (observed only)',
    ]
    assumptions = [
        'the ASM path is compared for slices on which Topology.validate() succeeds (documented precondition: service '
        'sites are set by validate())',
        'sites and names are non-empty strings; capacities are Python ints',
    ]

    def extra_static(self, ctx):
        """the compression dictionary of the cases files is the same list in the model and in the harness"""
        try:
            with open(os.path.join(common.COQ, 'Model', 'Collect11.v')) as f:
                txt = f.read()
            blk = txt[txt.index('Definition dict : list str :='):]
            blk = blk[:blk.index('].')]
            got = re.findall(r'S"([^"]*)"', blk)
            ok = got == DICT
            detail = 'ok' if ok else 'Model/Collect11.v dict (%d entries) differs from harness DICT (%d entries)' % (len(got), len(DICT))
        except Exception as e:
            ok, detail = False, repr(e)
        return [{'name': 'dict_in_sync', 'ok': ok, 'detail': detail}]


if __name__ == '__main__':
    sys.exit(main(C11()))

"""C13 - partitioning an aggregate model yields sound per-delegation models.

Two correspondence streams share one case type:
  topo : substrate models built with the real SubstrateTopology API (sites x workers with components,
         switches with stitch ports, facility ports, inter-switch links, P4 switches), annotated with 1..3
         delegation ids (single and pooled; label-only / capacity-only / both / none) through
         annotate_delegations_and_pools where expressible, else by writing Delegations.to_json();
  raw  : small raw property graphs (arbitrary classes / relations, links with 1..3 connection points,
         odd edge classes that exercise the ineffective rel2 filter of get_first_and_second_neighbor).
Observed: NetworkXARMGraph.generate_adms on the in-memory backend (id -> graph dictionary as canonical
snapshots read back from the store, the ARM before/after, the graph ids in the store), then
NetworkXADMGraph.rewrite_delegations on every partition (and on a clone of the ARM, error path).
The oracle restates the clauses of the property directly over these snapshots (strings, parsed JSON) and
does not use the Coq model.
"""
import sys, json, copy
from . import common
from .common import *

CLS = {'NetworkNode': 1, 'NetworkService': 2, 'Component': 3, 'ConnectionPoint': 4, 'Link': 5}
REL = {'has': 1, 'connects': 2}
SPECIAL = ('GraphID', 'NodeID', 'Class', 'StitchNode', 'LabelDelegations', 'CapacityDelegations')

CAP_MENU = [{'core': 2, 'ram': 8}, {'unit': 1}, {'bw': 100}, {'disk': 500, 'unit': 2}, {'bw': 25, 'mtu': 9000},
            {'core': 32, 'ram': 128, 'disk': 100000, 'cpu': 2, 'unit': 1}]
LAB_MENU = [{'vlan_range': '1-100'}, {'bdf': '0000:25:00.0'}, {'mac': '04:3F:72:B7:15:74'},
            {'vlan_range': ['1-100', '201-300']}, {'ipv4_range': '192.168.1.1-192.168.1.10'},
            {'local_name': 'p1', 'vlan': '1001'}, {'bdf': ['0000:41:00.0', '0000:41:00.1']}]
DIDS = ['primary', 'del-B', 'net.am/3']


# ------------------------------------------------------------------------------------------------
# running the implementation
# ------------------------------------------------------------------------------------------------

def _reset():
    from fim.graph.networkx_property_graph import NetworkXGraphImporter
    imp = NetworkXGraphImporter()
    imp.delete_all_graphs()
    return imp


def parse_deleg(text):
    """independent decoding of a delegation property value: id -> ['S', details] | ['D', pool, details] | ['R', pool]"""
    if text is None:
        return None
    d = json.loads(text)
    out = {}
    for k, v in d.items():
        if 'pool_id' in v:
            det = v.get('capacities', v.get('labels'))
            out[k] = ['S', det] if v['pool_id'] == '_' else ['D', v['pool_id'], det]
        elif 'pool' in v:
            out[k] = ['R', v['pool']]
        else:
            out[k] = ['?', v]
    return out


def snapshot(storage, gid):
    """canonical, JSON-able view of one graph in the shared store (internal integer ids dropped)"""
    g = storage.get_graph(gid)
    ids = {}
    nodes = {}
    for n, d in g.nodes(data=True):
        if d.get('GraphID') != gid:
            continue
        ids[n] = d.get('NodeID')
        nodes[d.get('NodeID')] = {
            'Class': d.get('Class'), 'Stitch': d.get('StitchNode'),
            'props': {k: v for k, v in d.items() if k not in SPECIAL},
            'ld': parse_deleg(d.get('LabelDelegations')), 'cd': parse_deleg(d.get('CapacityDelegations')),
            'ld_text': d.get('LabelDelegations'), 'cd_text': d.get('CapacityDelegations')}
    edges = []
    for a, b, d in g.edges(data=True):
        if a in ids and b in ids:
            x, y = sorted([ids[a], ids[b]])
            edges.append([x, y, d.get('Class'), {k: v for k, v in d.items() if k != 'Class'}])
        elif a in ids or b in ids:
            edges.append(['<cross-graph>', str(ids.get(a, ids.get(b))), d.get('Class'), {}])
    edges.sort(key=lambda e: (e[0], e[1]))
    return {'nodes': nodes, 'edges': edges}


def store_graph_ids(storage):
    return sorted({d.get('GraphID') for _, d in storage.get_graph(None).nodes(data=True)})


def rename_keys(snap, ren):
    """random graph ids (uuid4) used as delegation keys after re-keying are replaced by stable names"""
    for n in snap['nodes'].values():
        for f in ('ld', 'cd'):
            if n[f]:
                n[f] = {ren.get(k, k): v for k, v in n[f].items()}
    return snap


def strip_text(snap):
    return {'nodes': {k: {kk: vv for kk, vv in v.items() if not kk.endswith('_text')} for k, v in snap['nodes'].items()},
            'edges': snap['edges']}


def mk_delegations(atype, entries):
    """entries: did -> ['S', det] | ['D', pool, det] | ['R', pool]  ->  Delegations object (real classes)"""
    from fim.slivers.delegations import Delegation, Delegations, DelegationType, DelegationFormat
    from fim.slivers.capacities_labels import Capacities, Labels
    ds = Delegations(atype=atype)
    for did, e in entries.items():
        if e[0] == 'S':
            d = Delegation(atype=atype, delegation_id=did, aformat=DelegationFormat.SinglePool)
            d.set_details(Capacities(**e[1]) if atype == DelegationType.CAPACITY else Labels(**e[1]))
        elif e[0] == 'D':
            d = Delegation(atype=atype, delegation_id=did, aformat=DelegationFormat.PoolDefinition, pool_id=e[1])
            d.set_details(Capacities(**e[2]) if atype == DelegationType.CAPACITY else Labels(**e[2]))
        else:
            d = Delegation(atype=atype, delegation_id=did, aformat=DelegationFormat.PoolReference, pool_id=e[1])
        ds.add_delegations(d)
    return ds


def merged_annotations(case, present):
    """per type, node id -> {did: entry}; entries naming nodes that do not exist (after shrinking) are dropped,
    a second entry for the same (node, type, did) is dropped"""
    out = {'L': {}, 'C': {}}
    for a in case.get('ann', []):
        nid, t, did = a[0], a[1], a[2]
        if nid not in present:
            continue
        if a[3] == 'E':            # an empty Delegations object ({}): property present, no entries
            out[t].setdefault(nid, {})
            continue
        m = out[t].setdefault(nid, {})
        if did in m:
            continue
        menu = LAB_MENU if t == 'L' else CAP_MENU
        if a[3] == 'S':
            m[did] = ['S', menu[a[5] % len(menu)]]
        elif a[3] == 'D':
            m[did] = ['D', a[4], menu[a[5] % len(menu)]]
        elif a[3] == 'R':
            m[did] = ['R', a[4]]
    return out


def annotate(arm, case, present):
    """write the delegations; returns 'annotate' when the public annotate_delegations_and_pools could express it"""
    from fim.slivers.delegations import DelegationType, Pools, Pool
    from fim.slivers.capacities_labels import Capacities, Labels
    from fim.graph.abc_property_graph import ABCPropertyGraph
    ann = merged_annotations(case, present)
    used = 'direct'
    for t, atype, prop in (('L', DelegationType.LABEL, ABCPropertyGraph.PROP_LABEL_DELEGATIONS),
                           ('C', DelegationType.CAPACITY, ABCPropertyGraph.PROP_CAPACITY_DELEGATIONS)):
        per = ann[t]
        ok = case.get('via') == 'annotate'
        pools = {}
        if ok:
            for nid, m in per.items():
                kinds = {e[0] for e in m.values()}
                if not m or (kinds & {'D', 'R'} and 'S' in kinds):
                    ok = False
                for did, e in m.items():
                    if e[0] in ('D', 'R'):
                        p = pools.setdefault((e[1], did), {'on': [], 'for': [], 'det': None})
                        if e[0] == 'D':
                            p['on'].append(nid)
                            p['det'] = e[2]
                        else:
                            p['for'].append(nid)
            names = [k[0] for k in pools]
            if len(set(names)) != len(names) or any(len(p['on']) != 1 or not p['for'] for p in pools.values()):
                ok = False
        if ok:
            ps = Pools(atype=atype)
            for (pid, did), p in pools.items():
                po = Pool(atype=atype, pool_id=pid, delegation_id=did, defined_on=p['on'][0], defined_for=p['for'])
                po.set_pool_details(Capacities(**p['det']) if t == 'C' else Labels(**p['det']))
                ps.add_pool(pool=po)
            ps.build_index_by_delegation_id()
            singles = {nid: mk_delegations(atype, m) for nid, m in per.items()
                       if all(e[0] == 'S' for e in m.values())}
            arm.annotate_delegations_and_pools(dels=singles, pools=ps)
            used = 'annotate'
        else:
            for nid, m in per.items():
                arm.update_node_property(node_id=nid, prop_name=prop, prop_val=mk_delegations(atype, m).to_json())
    return used


def add_worker(t, ctx, si, wn, w):
    """one worker with its components through the user API; NIC ports are patched to new switch ports"""
    import fim.user as f
    sn = 'S%d' % si
    swport, st = ctx['swport'][si], ctx['stitch'][si]
    kw = {'capacities': f.Capacities(core=32, cpu=2, unit=1, ram=512, disk=4800)} if w.get('cap', True) else {}
    node = t.add_node(name=wn, model='R7525', site=sn, node_id=wn + '-id', ntype=f.NodeType.Server, **kw)
    for ci, c in enumerate(w.get('comps', [])):
        cn = '%s-%s%d' % (wn, c, ci)
        if c == 'nic':
            node.add_component(name=cn, model='ConnectX-6', node_id=cn + '-id',
                               network_service_node_id=cn + '-sf',
                               interface_node_ids=[cn + '-p1-id', cn + '-p2-id'],
                               interface_labels=[f.Labels(mac='04:3F:72:B7:15:74', vlan_range='1-4096'),
                                                 f.Labels(mac='04:3F:72:B7:15:75', vlan_range='1-4096')],
                               ctype=f.ComponentType.SmartNIC, capacities=f.Capacities(unit=1),
                               labels=f.Labels(bdf=['0000:41:00.0', '0000:41:00.1']))
            ports = [cn + '-p1'] + ([cn + '-p2'] if w.get('both_ports') else [])
        elif c == 'shnic':
            node.add_component(name=cn, model='ConnectX-6', node_id=cn + '-id',
                               network_service_node_id=cn + '-sf', interface_node_ids=[cn + '-p1-id'],
                               interface_labels=[f.Labels(bdf=['0000:e2:00.2', '0000:e2:00.3'],
                                                          mac=['04:3F:72:B7:14:ED', '04:3F:72:B7:14:EE'],
                                                          vlan=['1001', '1002'])],
                               capacities=f.Capacities(unit=2), labels=f.Labels(bdf=['0000:e2:00.2', '0000:e2:00.3']),
                               ctype=f.ComponentType.SharedNIC)
            ports = [cn + '-p1']
        elif c == 'gpu':
            node.add_component(name=cn, model='RTX6000', node_id=cn + '-id', ctype=f.ComponentType.GPU,
                               capacities=f.Capacities(unit=1), labels=f.Labels(bdf='0000:25:00.0'))
            ports = []
        else:
            node.add_component(name=cn, model='P4510', node_id=cn + '-id', ctype=f.ComponentType.NVME,
                               capacities=f.Capacities(unit=1, disk=1000), labels=f.Labels(bdf='0000:21:00.0'))
            ports = []
        for pn in ports:
            sp = swport(st)
            t.add_link(name='l-' + pn, ltype=f.LinkType.Patch, interfaces=[node.interfaces[pn], sp],
                       node_id=sp.node_id + '-DAC')


def add_fac(t, ctx, si, fn, port=None):
    import fim.user as f
    sn = 'S%d' % si
    fac = t.add_facility(name=fn, node_id=fn + '-id', site=sn,
                         capacities=f.Capacities(mtu=1500, bw=10), labels=f.Labels(vlan_range='1-100'))
    if port is None:
        port = ctx['swport'][si](False)
    t.add_link(name=fn + '-link', node_id=fn + '-link-id', ltype=f.LinkType.L2Path,
               interfaces=[fac.interface_list[0], port])
    return port


def build_topo_ctx(case):
    """deterministic construction of a substrate model from the recipe, with the real user API;
    returns the topology object and what is needed to keep growing it"""
    import fim.user as f
    t = f.SubstrateTopology()
    ctx = {'swport': {}, 'stitch': {}}
    for si, site in enumerate(case['sites']):
        sn = 'S%d' % si
        st = bool(site.get('stitch', True))
        sw = t.add_node(name=sn + '-sw', model='NCS 55A1-36H', node_id=sn + '-sw-id', site=sn,
                        ntype=f.NodeType.Switch, stitch_node=st)
        ns = sw.add_network_service(name=sn + '-sw-ns', node_id=sn + '-sw-ns-id', nstype=f.ServiceType.MPLS,
                                    stitch_node=st, **({} if st else {'labels': f.Labels(vlan_range='1-100')}))

        def swport(stitch, caps=True, ns=ns, sn=sn, pidx=[0]):
            pidx[0] += 1
            kw = {}
            if caps and not stitch:
                kw = {'capacities': f.Capacities(bw=100), 'labels': f.Labels(vlan_range='1-4096')}
            return ns.add_interface(name='HundredGigE0/0/0/%d' % pidx[0], itype=f.InterfaceType.TrunkPort,
                                    node_id='%s-sw-port%d' % (sn, pidx[0]), stitch_node=stitch, **kw)
        ctx['swport'][si] = swport
        ctx['stitch'][si] = st
        for wi, w in enumerate(site.get('workers', [])):
            add_worker(t, ctx, si, '%s-w%d' % (sn, wi), w)
        shared = None
        for fi in range(site.get('facs', 0)):
            p = add_fac(t, ctx, si, '%s-fac%d' % (sn, fi), shared if site.get('share_fac_port') else None)
            shared = p
        if site.get('p4'):
            p4 = t.add_switch(name=sn + '-p4', site=sn, node_id=sn + '-p4-id', nports=2)
            for k in (1, 2):
                sp = swport(False)
                t.add_link(name='%s-p4l%d' % (sn, k), ltype=f.LinkType.Patch, interfaces=[p4.interfaces['p%d' % k], sp],
                           node_id=sp.node_id + '-DAC')
    for k, (i, j) in enumerate(case.get('isl', [])):
        if i in ctx['swport'] and j in ctx['swport'] and i != j:
            a = ctx['swport'][i](False)
            b = ctx['swport'][j](False)
            t.add_link(name='isl%d' % k, ltype=f.LinkType.L2Path, interfaces=[a, b], node_id='isl%d-%d-%d-Wave' % (k, i, j))
    return t, ctx


def build_topo(case):
    return build_topo_ctx(case)[0].as_arm()


def build_raw(case):
    from fim.graph.networkx_property_graph import NetworkXGraphImporter, NetworkXPropertyGraph
    from fim.graph.resources.networkx_arm import NetworkXARMGraph
    imp = NetworkXGraphImporter()
    pg = NetworkXPropertyGraph(graph_id='raw-arm', importer=imp)
    ids = set()
    for nid, cls, stitch, props in case['nodes']:
        p = dict(props)
        if stitch is not None:
            p['StitchNode'] = stitch
        pg.add_node(node_id=nid, label=cls, props=p)
        ids.add(nid)
    seen = set()
    for e in case['edges']:
        a, b, rel = e[0], e[1], e[2]
        if a in ids and b in ids and a != b and frozenset((a, b)) not in seen:
            seen.add(frozenset((a, b)))
            pg.add_link(node_a=a, rel=rel, node_b=b, props=(e[3] if len(e) > 3 and e[3] else None))
    return NetworkXARMGraph(graph=pg)


def apply_mutation(t, ctx, arm, rnd):
    """one round of changes to the aggregate model through the SubstrateTopology API (which shares the graph with
    every ARM wrapper): rack new workers / facilities, remove nodes, drop delegation properties"""
    done = {'grown': 0, 'removed': 0, 'refused': 0}
    for g in rnd.get('grow', []):
        if g['site'] in ctx['swport']:
            try:
                add_worker(t, ctx, g['site'], g['name'], g['w'])
                done['grown'] += 1
            except Exception:
                done['refused'] += 1
    for si, fn in rnd.get('facs', []):
        if si in ctx['swport']:
            try:
                add_fac(t, ctx, si, fn)
                done['grown'] += 1
            except Exception:
                done['refused'] += 1
    for name in rnd.get('remove', []):
        try:
            t.remove_node(name)
            done['removed'] += 1
        except Exception:
            done['refused'] += 1
    from fim.graph.abc_property_graph import ABCPropertyGraph
    present = set(snapshot(arm.storage, arm.graph_id)['nodes'].keys())
    for nid, ty in rnd.get('unann', []):
        if nid in present:
            arm.unset_node_property(node_id=nid, prop_name=ABCPropertyGraph.PROP_LABEL_DELEGATIONS if ty == 'L'
                                    else ABCPropertyGraph.PROP_CAPACITY_DELEGATIONS)
    return done


def run_case(case):
    """one partitioning, or (case['rounds']) a history: partition; change the aggregate through the API;
    partition again with the SAME ARM object or with a fresh wrapper -- every round observed in full"""
    imp = _reset()
    case = copy.deepcopy(case)
    t = ctx = None
    if case['stream'] == 'topo':
        t, ctx = build_topo_ctx(case)
        arm = t.as_arm()
    else:
        arm = build_raw(case)
    storage = arm.storage
    present = set(snapshot(storage, arm.graph_id)['nodes'].keys())
    via = annotate(arm, case, present)
    obs = partition_obs(arm, case, via)
    if case.get('rounds') and t is not None:
        obs['rounds'] = []
        for rnd in case['rounds']:
            if rnd.get('second_model'):
                # a second, equally built and equally delegated model next to the first (same delegation strings)
                t2, _ = build_topo_ctx(case)
                arm2 = t2.as_arm()
                annotate(arm2, case, set(snapshot(storage, arm2.graph_id)['nodes'].keys()))
                o = partition_obs(arm2, rnd, 'direct', bystanders=(arm.graph_id,))
                o['same_arm'] = False
                o['second_model'] = True
                o['mutation'] = 'building a second, equally delegated model'
                obs['rounds'].append(o)
                storage.del_graph(arm2.graph_id)
                continue
            done = apply_mutation(t, ctx, arm, rnd)
            arm_r = arm if rnd.get('same_arm', True) else t.as_arm()
            present = set(snapshot(storage, arm_r.graph_id)['nodes'].keys())
            annotate(arm_r, {'ann': rnd.get('ann', []), 'via': 'direct'}, present)
            o = partition_obs(arm_r, rnd, 'direct')
            o['same_arm'] = bool(rnd.get('same_arm', True))
            o['mutation'] = done
            obs['rounds'].append(o)
    return obs


def parsed_mismatch(arm, snap):
    """the source as the API parses it (ARM.get_delegations per node and type) against the property strings:
    list of disagreements on delegation ids / entry form / pool (empty = the parsed view is the stored one)"""
    from fim.slivers.delegations import DelegationType, DelegationFormat
    form = {DelegationFormat.SinglePool: 'S', DelegationFormat.PoolDefinition: 'D', DelegationFormat.PoolReference: 'R'}
    bad = []
    for nid in sorted(snap['nodes']):
        for f, ty in (('ld', DelegationType.LABEL), ('cd', DelegationType.CAPACITY)):
            want = snap['nodes'][nid][f]
            if want is None:
                continue               # property absent: nothing is parsed
            want = None if want is None else {k: [e[0]] + ([e[1]] if e[0] in ('D', 'R') else []) for k, e in want.items()}
            try:
                ds = arm.get_delegations(node_id=nid, delegation_type=ty)
                got = None if ds is None else {k: [form.get(d.get_format(), '?')] +
                                               ([d.get_pool_name()] if d.get_format() != DelegationFormat.SinglePool else [])
                                               for k, d in ds.delegations.items()}
            except Exception as e:
                got = {'<raised>': [type(e).__name__]}
            if got != want:
                bad.append('%s.%s: get_delegations reports %s, the property holds %s' % (nid, f, got, want))
    return bad[:4]


def partition_obs(arm, case, via, bystanders=()):
    """generate_adms + rewrite_delegations on the current state of the store; the partitions are removed from the
    store afterwards (they are snapshotted first), so that rounds do not pile up.  The source is observed as
    property strings AND through the API's parsed view, before partitioning and after the re-keying."""
    from fim.graph.resources.networkx_adm import NetworkXADMFactory
    storage = arm.storage
    garm = arm.graph_id
    before = snapshot(storage, garm)
    by_before = {g: snapshot(storage, g) for g in bystanders}
    visible = lambda: [g for g in store_graph_ids(storage) if g not in bystanders]
    guids = {d: 'adm-guid-' + d for d in case.get('guids', [])}
    for d in case.get('guids_self', []):   # the partition's graph is named after the delegation id (legal)
        guids[d] = d
    bad = case.get('bad_guid')
    if bad and bad[0] == 'own':            # the caller names the aggregate model's own graph id
        guids[bad[1]] = garm
    elif bad and bad[0] == 'dup':          # the caller names one graph id for two delegation ids
        guids[bad[1]] = guids[bad[2]] = 'adm-guid-dup'
    ren = {garm: 'ARM'}
    obs = {'garm': 'ARM', 'before': before, 'via': via, 'asked_guids': {d: ren.get(g, g) for d, g in guids.items()},
           'parsed': {'start': parsed_mismatch(arm, before)}}
    # round 7 (seed C13-13): half of the cases that name their partitions' graph ids partition the model a first time
    # under the SAME ids and leave those partitions in the store; generate_adms replaces a graph whose id it is given,
    # so the observed second partitioning must be what it is on a store without them (the model knows no difference).
    # Partitions of the first pass under ids the second pass does not name (uuid-named ones) are removed.
    import zlib
    if guids and not bad and case.get('stale_first', zlib.crc32(json.dumps(case, sort_keys=True, default=str).encode()) & 1):
        obs['stale_first'] = True
        try:
            arm.generate_adms(delegation_guids=dict(guids))
        except Exception as e:
            obs['stale_first'] = 'raised ' + type(e).__name__
        for g in visible():
            if g != garm and g not in guids.values():
                storage.del_graph(g)
    try:
        adms = arm.generate_adms(delegation_guids=guids or None)
    except Exception as e:
        obs['err'] = type(e).__name__
        obs['store'] = sorted(ren.get(g, 'unexpected:' + str(g)) for g in visible())
        obs['after'] = obs['after_generate'] = snapshot(storage, garm)
        obs['parsed']['end'] = parsed_mismatch(arm, before)
        obs['bystanders_changed'] = [g for g in bystanders if snapshot(storage, g) != by_before[g]]
        for g in visible():
            if g != garm:
                storage.del_graph(g)
        return obs
    obs['adms'] = {}
    for d in sorted(adms):
        gid = adms[d].graph_id
        if gid not in ren:
            ren[gid] = gid if d in guids else 'uuid-for-' + d
    for d in sorted(adms):
        gid = adms[d].graph_id
        obs['adms'][d] = {'gid': ren[gid], 'snap': strip_text(snapshot(storage, gid))}
    obs['store'] = sorted(ren.get(g, 'unexpected:' + str(g)) for g in visible())
    obs['after_generate'] = snapshot(storage, garm)
    # re-keying, as a short sequence per partition: 'gid' = to the partition's own graph id (real_adm_id None),
    # 'real' = to a caller-supplied id, 'same' = to the key the entries carry at that moment (first: the delegation id)
    obs['rw'] = {}
    plan = case.get('rw_plan') or (['real'] if case.get('realid') else ['gid'])
    for d in sorted(adms):
        adm = NetworkXADMFactory.create(adms[d])
        cur_actual, cur_name = d, d
        steps = []
        for kind in plan:
            if kind == 'gid':
                real, new_actual, new_name = None, adms[d].graph_id, ren[adms[d].graph_id]
            elif kind == 'real':
                real = new_actual = new_name = 'real-' + d
            else:
                real, new_actual, new_name = cur_actual, cur_actual, cur_name
            raised = None
            try:
                adm.rewrite_delegations(real_adm_id=real)
            except Exception as e:
                raised = type(e).__name__
            steps.append({'kind': kind, 'key': new_name, 'raised': raised,
                          'snap': rename_keys(strip_text(snapshot(storage, adms[d].graph_id)), ren)})
            if raised is None:
                cur_actual, cur_name = new_actual, new_name
        obs['rw'][d] = steps
    if case.get('rw_arm'):
        cl = NetworkXADMFactory.create(arm.clone_graph(new_graph_id='arm-clone'))
        raised = None
        order = cl.list_all_node_ids()      # effects before a raise depend on the store's iteration order
        try:
            cl.rewrite_delegations(real_adm_id='real-arm')
        except Exception as e:
            raised = type(e).__name__
        obs['rw_arm'] = {'key': 'real-arm', 'raised': raised, 'order': order, 'snap': strip_text(snapshot(storage, 'arm-clone'))}
    # the source once more, after the partitions were re-keyed: strings and the API's parsed view
    obs['after'] = snapshot(storage, garm)
    obs['parsed']['end'] = parsed_mismatch(arm, before)
    obs['bystanders_changed'] = [g for g in bystanders if snapshot(storage, g) != by_before[g]]
    for g in visible():
        if g != garm:
            storage.del_graph(g)
    return obs


# ------------------------------------------------------------------------------------------------
# python observation -> Coq term
# ------------------------------------------------------------------------------------------------

class Intern:
    def __init__(self, fixed=None, start=1):
        self.t = dict(fixed or {})
        self.next = max([start - 1] + list(self.t.values())) + 1

    def __call__(self, x):
        k = x if isinstance(x, str) else json.dumps(x, sort_keys=True)
        if k not in self.t:
            self.t[k] = self.next
            self.next += 1
        return self.t[k]


class Enc:
    """one interning context per case (node ids in sorted order, so the model's output order is canonical)"""

    def __init__(self, before):
        self.node = Intern()
        for nid in sorted(before['nodes']):
            self.node(nid)
        self.cls = Intern(CLS)
        self.rel = Intern(REL)
        self.stitch = Intern({'true': 1})
        self.props = Intern()
        self.did = Intern()
        self.pool = Intern()
        self.det = Intern()
        self.gid = Intern()

    def dmap(self, m):
        if m is None:
            return 'None'
        items = []
        for did, e in m.items():
            if e[0] == 'S':
                d = 'DSingle %s' % cN(self.det(e[1]))
            elif e[0] == 'D':
                d = 'DPoolDef %s %s' % (cN(self.pool(e[1])), cN(self.det(e[2])))
            elif e[0] == 'R':
                d = 'DPoolRef %s' % cN(self.pool(e[1]))
            else:
                d = 'DPoolRef 0%N'
            items.append('(%s, %s)' % (cN(self.did(did)), d))
        return '(Some %s)' % clist(items)

    def graph(self, snap):
        ns = []
        for nid in sorted(snap['nodes'], key=lambda x: self.node(x)):
            n = snap['nodes'][nid]
            ns.append('mkNode %s %s %s %s %s %s' % (
                cN(self.node(nid)), cN(self.cls(n['Class']) if n['Class'] is not None else 0),
                copt(n['Stitch'], lambda s: cN(self.stitch(str(s)))), cN(self.props(n['props'])),
                self.dmap(n['ld']), self.dmap(n['cd'])))
        es = []
        for a, b, c, p in sorted(snap['edges'], key=lambda e: tuple(sorted((self.node(e[0]), self.node(e[1]))))):
            x, y = sorted((self.node(a), self.node(b)))
            es.append('mkEdge %s %s %s %s' % (cN(x), cN(y), cN(self.rel(c) if c is not None else 0), cN(self.props(p))))
        return '(mkGraph %s %s)' % (clist(ns), clist(es))


def case_to_coq(case, o, gid=None):
    enc = Enc(o['before'])
    if gid is not None:
        enc.gid = gid              # graph ids interned once for several observations (results of different calls)
    A = enc.graph(o['before'])
    garm = enc.gid('ARM')
    supplied = clist(['(%s, %s)' % (cN(enc.did(d)), cN(enc.gid(g))) for d, g in sorted(o['asked_guids'].items())])
    if 'err' in o:
        adms, rw = 'Err EQuery', '[]'
        keys = clist([cN(x) for x in sorted(enc.gid(g) for g in o['store'])])
    else:
        # delegation ids are interned in sorted order so that "sorted by id" agrees on both sides
        for d in sorted(o['adms']):
            enc.did(d)
        ordered = sorted(o['adms'], key=lambda d: enc.did(d))
        adms = 'Ok ' + clist(['(%s, %s, %s)' % (cN(enc.did(d)), cN(enc.gid(o['adms'][d]['gid'])), enc.graph(o['adms'][d]['snap']))
                              for d in ordered])
        keys = clist([cN(x) for x in sorted(enc.gid(g) for g in o['store'])])
        rw = clist(['(%s, %s)' % (cN(enc.did(d)), clist(['(%s, (%s, %s))' % (cN(enc.did(st['key'])), enc.graph(st['snap']),
                                                                             cbool(st['raised'] is not None))
                                                         for st in o['rw'][d]])) for d in ordered])
    after = 'None' if strip_text(o['after']) == strip_text(o['before']) else '(Some %s)' % enc.graph(o['after'])
    rwa = 'None'
    if o.get('rw_arm'):
        rwa = '(Some (%s, %s, (%s, %s)))' % (cN(enc.did('real-arm')), clist([cN(enc.node(x)) for x in o['rw_arm']['order']]),
                                             enc.graph(o['rw_arm']['snap']),
                                         cbool(o['rw_arm']['raised'] is not None))
    return 'mkCase %s %s %s (mkObs (%s) %s %s %s %s)' % (A, cN(garm), supplied, adms, keys, after, rw, rwa)


# ------------------------------------------------------------------------------------------------
# the property, restated over implementation snapshots only
# ------------------------------------------------------------------------------------------------

def nb(snap, x, rel=None):
    out = []
    for a, b, c, _ in snap['edges']:
        if rel is not None and c != rel:
            continue
        if a == x:
            out.append(b)
        elif b == x:
            out.append(a)
    return out


def all_dids(snap):
    s = set()
    for n in snap['nodes'].values():
        for m in (n['ld'], n['cd']):
            if m:
                s.update(m.keys())
    return s


def oracle_case(case, o):
    """returns (strict failure or None, known-gap failure or None)"""
    B = o['before']
    if not B['nodes']:
        return None, None          # an empty model is outside the domain (only reachable by shrinking)
    dids = all_dids(B)
    sup = [g for d, g in sorted(o['asked_guids'].items()) if d in dids]
    bad = 'ARM' in sup or len(set(sup)) != len(sup)
    if o.get('after_generate', o['after']) != B:
        return 'source-untouched: the aggregate model was modified by generate_adms (delegation_guids %s)' % o['asked_guids'], None
    if o['after'] != B:
        return 'source-untouched: the aggregate model was modified by rewrite_delegations on one of its partitions', None
    for when in ('start', 'end'):
        if o.get('parsed', {}).get(when):
            return ('source-untouched: parsed view of the aggregate model (%s) differs from its properties: %s' % (
                {'start': 'before partitioning', 'after_generate': 'after generate_adms',
                 'end': 'after re-keying the partitions'}[when], o['parsed'][when][0])), None
    if o.get('bystanders_changed'):
        return 'source-untouched: another model in the store was modified', None
    if 'err' in o:
        if not bad:
            return 'generate_adms raised %s on a valid annotated model' % o['err'], None
        if o['err'] != 'PropertyGraphQueryException' or o['store'] != ['ARM']:
            return 'source-untouched: rejected delegation_guids left %s in the store (%s)' % (o['store'], o['err']), None
        return None, None
    if bad:
        return ('source-untouched: generate_adms accepted delegation_guids naming the aggregate model itself or one '
                'graph id twice: %s' % o['asked_guids']), None
    if set(o['adms'].keys()) != dids:
        return 'partition ids %s differ from the delegation ids present %s' % (sorted(o['adms']), sorted(dids)), None
    gids = [o['adms'][d]['gid'] for d in o['adms']]
    if sorted(o['store']) != sorted(['ARM'] + gids) or len(set(gids)) != len(gids):
        return 'store holds %s, expected the ARM and one graph per delegation id' % o['store'], None
    for d, g in o['asked_guids'].items():
        if d in o['adms'] and o['adms'][d]['gid'] != g:
            return 'requested graph id for %s not honoured' % d, None
    weak = None
    for d in sorted(o['adms']):
        P = o['adms'][d]['snap']
        PN = P['nodes']
        # present + exactly its own entries (both types separately)
        for nid, n in B['nodes'].items():
            has = (n['ld'] and d in n['ld']) or (n['cd'] and d in n['cd'])
            if has and nid not in PN:
                return 'present: node %s delegated to %s is missing from its partition' % (nid, d), None
        for nid, pn in PN.items():
            if nid not in B['nodes']:
                return 'submodel: node %s of partition %s is not in the aggregate model' % (nid, d), None
            n = B['nodes'][nid]
            for f in ('ld', 'cd'):
                want = {d: n[f][d]} if (n[f] and d in n[f]) else {}
                got = pn[f] or {}
                if any(k != d for k in got):
                    return 'no-leak: node %s in partition %s carries entries of %s' % (nid, d, sorted(k for k in got if k != d)), None
                if got != want:
                    return 'exact: node %s in partition %s has %s entries %s, expected %s' % (nid, d, f, got, want), None
                if not want and pn[f] is not None:
                    return 'exact: node %s in partition %s keeps an empty %s property' % (nid, d, f), None
            if (pn['Class'], pn['Stitch'], pn['props']) != (n['Class'], n['Stitch'], n['props']):
                return 'submodel: other properties of %s changed in partition %s' % (nid, d), None
        want_edges = [e for e in B['edges'] if e[0] in PN and e[1] in PN]
        if P['edges'] != want_edges:
            return 'submodel: partition %s is not the induced subgraph (edges differ)' % d, None
        # stitch nodes everywhere
        for nid, n in B['nodes'].items():
            if n['Stitch'] == 'true' and nid not in PN:
                return 'stitch: stitch node %s missing from partition %s' % (nid, d), None
        # closure
        for nid, n in B['nodes'].items():
            if n['Class'] != 'ConnectionPoint' or nid not in PN:
                continue
            seed = n['Stitch'] == 'true' or (n['ld'] and d in n['ld']) or (n['cd'] and d in n['cd'])
            for l in nb(B, nid, 'connects'):
                if B['nodes'][l]['Class'] != 'Link':
                    continue
                peers = [p for p in nb(B, l, 'connects') if B['nodes'][p]['Class'] == 'ConnectionPoint' and p != nid]
                if seed and peers and (l not in PN or any(p not in PN for p in peers)):
                    return 'closure: interface %s of partition %s lost its link %s or a peer' % (nid, d, l), None
                if (l not in PN or any(p not in PN for p in peers)) and weak is None:
                    weak = ('closure-one-hop: interface %s is in partition %s only because it is the peer of a kept '
                            'interface (or its link has no peer); its link %s / peers are not kept' % (nid, d, l))
            for s in nb(B, nid, 'connects'):
                if B['nodes'][s]['Class'] != 'NetworkService':
                    continue
                owners = [x for x in nb(B, s, 'has') if B['nodes'][x]['Class'] in ('NetworkNode', 'Component')]
                if owners and (s not in PN or any(x not in PN for x in owners)):
                    return 'closure: interface %s of partition %s lost its service %s or the owner' % (nid, d, s), None
        # re-keying, every step of the sequence: only the key changes, to the key asked for
        for i, R in enumerate(o['rw'][d]):
            what = 're-keying %d of partition %s (%s -> %s)' % (i + 1, d, R['kind'], R['key'])
            if R['raised']:
                return 'rekey: rewrite_delegations raised %s at %s' % (R['raised'], what), None
            RN = R['snap']['nodes']
            if set(RN) != set(PN) or R['snap']['edges'] != P['edges']:
                return 'rekey: rewrite_delegations changed the node or edge set at %s' % what, None
            for nid, pn in PN.items():
                rn = RN[nid]
                if (rn['Class'], rn['Stitch'], rn['props']) != (pn['Class'], pn['Stitch'], pn['props']):
                    return 'rekey: other properties of %s changed at %s' % (nid, what), None
                for f in ('ld', 'cd'):
                    want = None if pn[f] is None else {R['key']: v for v in pn[f].values()}
                    if rn[f] != want:
                        return 'rekey: node %s has %s %s after %s, expected %s' % (nid, f, rn[f], what, want), None
    return None, weak


class C13Stream(Stream):
    header = ('From Coq Require Import List NArith Bool.\nImport ListNotations.\n'
              'From FIM Require Import Model.Adm13.\nOpen Scope N_scope.\n')
    case_type = 'case13'
    check_fn = 'check13'
    shard = 60

    def observe_here(self, case):
        try:
            return run_case(case)
        except Exception as e:      # the generator produced something the construction API refuses
            import traceback
            return {'build_error': type(e).__name__ + ': ' + str(e)[:200], 'tb': traceback.format_exc()[-600:]}

    def observe(self, case):
        """every case (a single partitioning or a whole history) runs in a forked child: whatever process-global
        state the library keeps (class attributes, singletons) starts from the same clean image for every case, so a
        failing case fails on its own and the replay is self-contained"""
        r, w = os.pipe()
        pid = os.fork()
        if pid == 0:
            code = 0
            try:
                os.close(r)
                data = json.dumps(self.observe_here(case), default=repr).encode()
                with os.fdopen(w, 'wb') as f:
                    f.write(data)
            except BaseException:
                code = 1
            finally:
                os._exit(code)
        os.close(w)
        with os.fdopen(r, 'rb') as f:
            data = f.read()
        os.waitpid(pid, 0)
        try:
            return json.loads(data.decode())
        except Exception:
            return {'build_error': 'child process produced no observation'}

    def to_coq(self, case, o):
        if 'build_error' in o:
            return 'mkCase (mkGraph [] []) 0 [] (mkObs (Ok []) [] None [] None)'   # reported by the oracle
        return case_to_coq(case, o)

    def oracle(self, case, o):
        if 'build_error' in o:
            return 'harness could not build the case: ' + o['build_error']
        strict, weak = oracle_case(case, o)
        return strict or weak

    def known_signature(self, case, o, why):
        return why or ''

    def key(self, case, o):
        if 'before' not in o:
            return None
        if len(all_dids(o['before'])) == 0:
            return None
        return stable_hash(strip_text(o['before']))

    def describe(self, case, o):
        if 'before' not in o:
            return {'case': case, 'impl': o}
        return {'case': case, 'impl': {'nodes': len(o['before']['nodes']), 'edges': len(o['before']['edges']),
                                       'via': o.get('via'), 'err': o.get('err'),
                                       'partitions': {d: len(v['snap']['nodes']) for d, v in o.get('adms', {}).items()}}}

    def histogram(self, cases, obs):
        h = {'ids_0': 0, 'ids_1': 0, 'ids_2': 0, 'ids_3': 0, 'nodes_label_only': 0, 'nodes_capacity_only': 0,
             'nodes_both': 0, 'nodes_none': 0, 'nodes_multi_id': 0, 'pool_definitions': 0, 'pool_references': 0,
             'stitch_nodes': 0, 'stitch_with_delegation': 0, 'empty_delegations_property': 0, 'via_annotate_api': 0,
             'links_with_3plus_cps': 0, 'interfaces_on_2plus_links': 0, 'proper_partitions': 0, 'partitions': 0, 'max_nodes': 0, 'total_nodes': 0,
             'explicit_guids': 0, 'bad_guids_rejected': 0, 'raised': 0, 'rekeyed_twice_or_more': 0,
             'rekeyed_to_the_key_already_carried': 0, 'graph_named_after_its_delegation_id': 0}
        for c, o in zip(cases, obs):
            if 'before' not in o:
                continue
            B = o['before']
            k = len(all_dids(B))
            h['ids_%d' % min(k, 3)] += 1
            h['via_annotate_api'] += o.get('via') == 'annotate'
            h['explicit_guids'] += bool(o.get('asked_guids'))
            h['raised'] += 'err' in o
            for d, steps in (o.get('rw') or {}).items():
                h['rekeyed_twice_or_more'] += len(steps) > 1
                cur = d
                for st in steps:
                    h['rekeyed_to_the_key_already_carried'] += st['key'] == cur
                    cur = st['key']
            h['graph_named_after_its_delegation_id'] += sum(1 for d, v in (o.get('adms') or {}).items() if v['gid'] == d)
            h['bad_guids_rejected'] += 'err' in o and bool(c.get('bad_guid'))
            h['max_nodes'] = max(h['max_nodes'], len(B['nodes']))
            h['total_nodes'] += len(B['nodes'])
            for nid, n in B['nodes'].items():
                l, cp = bool(n['ld']), bool(n['cd'])
                h['nodes_both'] += l and cp
                h['nodes_label_only'] += l and not cp
                h['nodes_capacity_only'] += cp and not l
                h['nodes_none'] += not l and not cp
                h['nodes_multi_id'] += len(set(n['ld'] or {}) | set(n['cd'] or {})) > 1
                h['empty_delegations_property'] += (n['ld'] == {}) + (n['cd'] == {})
                for m in (n['ld'], n['cd']):
                    for e in (m or {}).values():
                        h['pool_definitions'] += e[0] == 'D'
                        h['pool_references'] += e[0] == 'R'
                h['stitch_nodes'] += n['Stitch'] == 'true'
                h['stitch_with_delegation'] += n['Stitch'] == 'true' and (l or cp)
                if n['Class'] == 'Link' and len(nb(B, nid)) >= 3:
                    h['links_with_3plus_cps'] += 1
                if n['Class'] == 'ConnectionPoint' and \
                        sum(1 for x in nb(B, nid) if B['nodes'][x]['Class'] == 'Link') >= 2:
                    h['interfaces_on_2plus_links'] += 1
            for d, v in o.get('adms', {}).items():
                h['partitions'] += 1
                h['proper_partitions'] += len(v['snap']['nodes']) < len(B['nodes'])
        return h

    def shrink(self, case, failing):
        case = copy.deepcopy(case)
        cat = lambda w: (w or '').split(':')[0].split(' raised ')[0]
        want = cat(self.oracle(case, self.observe(case)))
        # keep the same clause failing while shrinking (not just any failure)
        failing = lambda c: (lambda w: w is not None and cat(w) == want)(self.oracle(c, self.observe(c)))

        def try_del(lst):
            i = len(lst) - 1
            while i >= 0:
                x = lst.pop(i)
                if not failing(case):
                    lst.insert(i, x)
                i -= 1
        for key in ('ann', 'edges', 'nodes', 'isl', 'guids'):
            if isinstance(case.get(key), list):
                try_del(case[key])
        for s in list(case.get('sites', [])):
            for w in s.get('workers', []):
                try_del(w.get('comps', []))
            try_del(s.get('workers', []))
            for k in ('facs', 'p4', 'share_fac_port'):
                if s.get(k):
                    old = s[k]
                    s[k] = 0
                    if not failing(case):
                        s[k] = old
        if len(case.get('sites', [])) > 1:
            try_del(case['sites'])
        for k in ('realid', 'rw_arm'):
            if case.get(k):
                case[k] = False
                if not failing(case):
                    case[k] = True
        if isinstance(case.get('guids_self'), list):
            try_del(case['guids_self'])
        if case.get('rw_plan') and len(case['rw_plan']) > 1:
            try_del(case['rw_plan'])
        return case


def gen_annotations(rng, nodes, k, via):
    """nodes: NodeID -> (Class, stitch?)  ->  list of annotation entries"""
    dids = DIDS[:k]
    ann = []
    mode = rng.choice(['partition', 'partition', 'overlap', 'sparse'])
    cands = [n for n, (c, st) in sorted(nodes.items())
             if c in ('NetworkNode', 'Component', 'ConnectionPoint', 'NetworkService') and (not st or rng.random() < 0.1)]
    group = {}
    for n in cands:
        # nodes of one worker / switch share a prefix: delegate subtrees together in 'partition' mode
        pre = n.split('-')[0] + '-' + (n.split('-')[1] if '-' in n else '')
        if pre not in group:
            group[pre] = rng.choice(dids)
        tm = rng.choices(['both', 'L', 'C', 'none'], weights=[45, 20, 20, 15])[0]
        if mode == 'sparse' and rng.random() < 0.7:
            tm = 'none'
        for t in ('L', 'C'):
            if tm not in ('both', t):
                continue
            if mode == 'partition':
                ids = [group[pre]] if rng.random() < 0.85 else [rng.choice(dids)]
            else:
                ids = [d for d in dids if rng.random() < 0.55] or [rng.choice(dids)]
            if rng.random() < 0.03:
                ann.append([n, t, '-', 'E', None, 0])
                continue
            for d in ids:
                ann.append([n, t, d, 'S', None, rng.randrange(12)])
    # pools: a definition on one node, references on others, one delegation id per pool
    for pi in range(rng.choice([0, 0, 1, 1, 2, 3])):
        t = rng.choice(['L', 'C'])
        d = rng.choice(dids)
        pool_cands = [n for n in cands if nodes[n][0] in ('ConnectionPoint', 'Component')]
        if len(pool_cands) < 2:
            break
        members = rng.sample(pool_cands, min(len(pool_cands), rng.randint(2, 4)))
        if via == 'annotate':      # the public API refuses singles and pool entries of one type on one node
            ann = [a for a in ann if not (a[0] in members and a[1] == t)]
        else:
            ann = [a for a in ann if not (a[0] in members and a[1] == t and a[2] == d)]
        pid = 'pool%d' % pi
        ann.append([members[0], t, d, 'D', pid, rng.randrange(12)])
        for m in members[1:]:
            ann.append([m, t, d, 'R', pid, 0])
    return ann


RW_PLANS = [['gid'], ['real'], ['gid', 'gid'], ['real', 'real'], ['same'], ['gid', 'same'], ['gid', 'real'],
            ['real', 'gid', 'gid'], ['same', 'real', 'same']]


def gen_rw(rng, k, case):
    """how the partitions are re-keyed (once, twice, to the key they already carry) and, in ~12% of the cases, a
    delegation id used as the graph id of its own partition"""
    case['rw_plan'] = rng.choice(RW_PLANS) if rng.random() < 0.6 else None
    case['guids_self'] = [d for d in DIDS[:k] if rng.random() < 0.5] if rng.random() < 0.12 else []


def gen_bad_guid(rng, k):
    """~8% of the cases: delegation_guids that must be rejected (the ARM's own graph id, or one id twice)"""
    r = rng.random()
    if r < 0.05:
        return ['own', rng.choice(DIDS[:k])]
    if r < 0.08 and k >= 2:
        a, b = rng.sample(DIDS[:k], 2)
        return ['dup', a, b]
    return None


class Topo(C13Stream):
    name = 'topo'
    rule = ('substrate models built with the SubstrateTopology API: 1-3 sites x 0-3 workers x 0-4 components, switch with '
            '(stitch) ports, facilities (optionally sharing a switch port), P4 switch, inter-switch links; 1-3 delegation '
            'ids, single + pooled, label-only/capacity-only/both/none per node; non-trivial = at least one delegation id; '
            'distinct by canonical ARM snapshot')

    def recipe(self, rng, big):
        ns = rng.choice([1, 1, 2, 3] if big else [1, 1, 1, 2])
        sites = []
        for _ in range(ns):
            workers = []
            for _ in range(rng.choice([0, 1, 1, 2, 3] if big else [0, 1, 1, 2])):
                workers.append({'comps': [rng.choice(['nic', 'nic', 'shnic', 'gpu', 'nvme'])
                                          for _ in range(rng.choice([0, 1, 2, 2, 3, 4] if big else [0, 1, 1, 2]))],
                                'cap': rng.random() < 0.85, 'both_ports': rng.random() < 0.3})
            sites.append({'workers': workers, 'stitch': rng.random() < 0.75, 'facs': rng.choice([0, 0, 1, 2, 3]),
                          'share_fac_port': rng.random() < 0.5, 'p4': rng.random() < 0.2})
        isl = []
        if ns > 1:
            for i in range(ns):
                for j in range(i + 1, ns):
                    if rng.random() < 0.7:
                        isl.append([i, j])
        return {'stream': 'topo', 'sites': sites, 'isl': isl}

    def gen(self, rng, tier):
        n = 120 if tier == 'quick' else 600
        out = []
        for i in range(n):
            case = self.recipe(rng, big=(tier != 'quick' or i % 6 == 0))
            _reset()
            arm = build_topo(copy.deepcopy(case))
            snap = snapshot(arm.storage, arm.graph_id)
            nodes = {nid: (v['Class'], v['Stitch'] == 'true') for nid, v in snap['nodes'].items()}
            k = rng.choice([1, 2, 2, 3, 3])
            case['via'] = rng.choice(['annotate', 'direct'])
            case['ann'] = gen_annotations(rng, nodes, k, case['via'])
            case['guids'] = [d for d in DIDS[:k] if rng.random() < 0.3]
            case['bad_guid'] = gen_bad_guid(rng, k)
            gen_rw(rng, k, case)
            case['realid'] = rng.random() < 0.5
            case['rw_arm'] = rng.random() < 0.15
            out.append(case)
        _reset()
        return out

    def corpus(self):
        return load_corpus('topo')


class Hist(C13Stream):
    name = 'hist'
    case_type = 'list case13'
    check_fn = 'check13_hist'
    shard = 25
    rule = ('histories on API-built substrate models: partition; then 1-2 rounds of [rack new workers / facilities, '
            'remove a worker, drop or rewrite delegation properties, delegate the new nodes (possibly to an id that '
            'exists only on them)] each followed by a partitioning with the SAME ARM object (70%) or a fresh as_arm() '
            'wrapper; every round compared with the model of the current graph and judged by the oracle; '
            'non-trivial = some round changed the node set; distinct by the canonical snapshots of all rounds')

    def all_rounds(self, o):
        return [o] + list(o.get('rounds', []))

    def to_coq(self, case, o):
        if 'build_error' in o:
            return '[mkCase (mkGraph [] []) 0 [] (mkObs (Ok []) [] None [] None)]'
        return clist([case_to_coq(case, r) for r in self.all_rounds(o)])

    def oracle(self, case, o):
        if 'build_error' in o:
            return 'harness could not build the case: ' + o['build_error']
        weak = None
        for i, r in enumerate(self.all_rounds(o)):
            strict, w = oracle_case(case, r)
            if strict:
                how = 'first partitioning' if i == 0 else ('partitioning %d with %s' % (
                    i + 1, 'the SAME ARM object' if r.get('same_arm') else 'a fresh ARM wrapper'))
                return '%s [%s, after %s]' % (strict, how, r.get('mutation', 'construction'))
            weak = weak or w
        return weak

    def key(self, case, o):
        if 'before' not in o:
            return None
        rs = self.all_rounds(o)
        if all(set(r['before']['nodes']) == set(rs[0]['before']['nodes']) for r in rs):
            return None
        return stable_hash([strip_text(r['before']) for r in rs])

    def describe(self, case, o):
        if 'before' not in o:
            return {'case': case, 'impl': o}
        return {'case': case, 'impl': [{'nodes': len(r['before']['nodes']), 'same_arm': r.get('same_arm'),
                                        'mutation': r.get('mutation'), 'err': r.get('err'),
                                        'partitions': {d: len(v['snap']['nodes']) for d, v in r.get('adms', {}).items()}}
                                       for r in self.all_rounds(o)]}

    def histogram(self, cases, obs):
        flat_c, flat_o = [], []
        extra = {'histories': 0, 'rounds_same_arm_object': 0, 'rounds_fresh_wrapper': 0, 'rounds_second_model': 0,
                 'partitionings_after_a_rekeying_in_the_same_store': 0, 'rounds_node_set_grew': 0,
                 'rounds_node_set_shrank': 0, 'rounds_with_id_only_on_new_nodes': 0, 'api_refused_mutations': 0}
        for c, o in zip(cases, obs):
            if 'before' not in o:
                continue
            extra['histories'] += 1
            rs = self.all_rounds(o)
            for i, r in enumerate(rs):
                flat_c.append(c if i == 0 else c['rounds'][i - 1])
                flat_o.append(r)
                if i and r.get('second_model'):
                    extra['rounds_second_model'] += 1
                    extra['partitionings_after_a_rekeying_in_the_same_store'] += 1
                    continue
                if i:
                    extra['partitionings_after_a_rekeying_in_the_same_store'] += bool(rs[i - 1].get('rw'))
                    prev, cur = set(rs[i - 1]['before']['nodes']), set(r['before']['nodes'])
                    extra['rounds_same_arm_object' if r['same_arm'] else 'rounds_fresh_wrapper'] += 1
                    extra['rounds_node_set_grew'] += bool(cur - prev)
                    extra['rounds_node_set_shrank'] += bool(prev - cur)
                    extra['api_refused_mutations'] += r['mutation']['refused']
                    old_ids = set()
                    for n in prev & cur:
                        for m in (r['before']['nodes'][n]['ld'], r['before']['nodes'][n]['cd']):
                            old_ids |= set(m or {})
                    extra['rounds_with_id_only_on_new_nodes'] += bool(all_dids(r['before']) - old_ids)
        h = C13Stream.histogram(self, flat_c, flat_o)
        h.update(extra)
        return h

    def shrink(self, case, failing):
        case = copy.deepcopy(case)
        cat = lambda w: (w or '').split(':')[0].split(' raised ')[0]
        want = cat(self.oracle(case, self.observe(case)))
        fails = lambda c: (lambda w: w is not None and cat(w) == want)(self.oracle(c, self.observe(c)))
        rounds = case.get('rounds', [])
        i = len(rounds) - 1
        while i >= 0 and len(rounds) > 1:
            x = rounds.pop(i)
            if not fails(case):
                rounds.insert(i, x)
            i -= 1
        for r in rounds:
            for k in ('ann', 'unann', 'remove', 'facs', 'grow', 'guids', 'guids_self', 'rw_plan'):
                lst = r.get(k) or []
                j = len(lst) - 1
                while j >= 0:
                    x = lst.pop(j)
                    if not fails(case):
                        lst.insert(j, x)
                    j -= 1
            for g in r.get('grow', []):
                comps = g['w'].get('comps', [])
                j = len(comps) - 1
                while j >= 0:
                    x = comps.pop(j)
                    if not fails(case):
                        comps.insert(j, x)
                    j -= 1
        return C13Stream.shrink(self, case, failing)

    def gen(self, rng, tier):
        n = 50 if tier == 'quick' else 400
        topo = Topo()
        out = []
        for i in range(n):
            case = topo.recipe(rng, big=False)
            _reset()
            t, ctx = build_topo_ctx(copy.deepcopy(case))
            arm = t.as_arm()

            def nodemap():
                snap = snapshot(arm.storage, arm.graph_id)
                return {nid: (v['Class'], v['Stitch'] == 'true') for nid, v in snap['nodes'].items()}
            nodes = nodemap()
            k = rng.choice([1, 2, 2, 3])
            case['via'] = rng.choice(['annotate', 'direct'])
            case['ann'] = gen_annotations(rng, nodes, k, case['via'])
            case['guids'] = [d for d in DIDS[:k] if rng.random() < 0.3]
            case['bad_guid'] = None
            gen_rw(rng, k, case)
            case['realid'] = rng.random() < 0.5
            case['rw_arm'] = False
            workers = ['S%d-w%d' % (si, wi) for si, s in enumerate(case['sites']) for wi in range(len(s.get('workers', [])))]
            case['rounds'] = []
            for r in range(rng.choice([1, 1, 2])):
                rnd = {'grow': [], 'facs': [], 'remove': [], 'unann': [], 'same_arm': rng.random() < 0.7,
                       'guids': [d for d in DIDS[:k] if rng.random() < 0.2], 'bad_guid': gen_bad_guid(rng, k) if rng.random() < 0.3 else None,
                       'realid': rng.random() < 0.5, 'rw_arm': False}
                gen_rw(rng, k, rnd)
                for j in range(rng.choice([0, 1, 1, 2])):
                    si = rng.randrange(len(case['sites']))
                    rnd['grow'].append({'site': si, 'name': 'S%d-g%d%d' % (si, r, j),
                                        'w': {'comps': [rng.choice(['nic', 'shnic', 'gpu', 'nvme']) for _ in range(rng.choice([0, 1, 2]))],
                                              'cap': True, 'both_ports': rng.random() < 0.3}})
                if rng.random() < 0.25:
                    si = rng.randrange(len(case['sites']))
                    rnd['facs'].append([si, 'S%d-gfac%d' % (si, r)])
                if workers and rng.random() < 0.3:
                    w = rng.choice(workers)
                    workers.remove(w)
                    rnd['remove'].append(w)
                annotated = sorted({(a[0], a[1]) for a in case['ann'] if a[0] in nodes})
                for nid, ty in rng.sample(annotated, min(len(annotated), rng.choice([0, 0, 1, 3]))):
                    rnd['unann'].append([nid, ty])
                apply_mutation(t, ctx, arm, rnd)
                workers += [g['name'] for g in rnd['grow']]
                after = nodemap()
                new = {nid: v for nid, v in after.items() if nid not in nodes}
                some_old = {nid: after[nid] for nid in rng.sample(sorted(set(after) & set(nodes)), min(3, len(set(after) & set(nodes))))} \
                    if rng.random() < 0.4 else {}
                k2 = min(3, k + 1) if rng.random() < 0.5 else k
                if k2 > k and new:
                    # a delegation id that exists only on the new nodes
                    rnd['ann'] = [a for a in gen_annotations(rng, new, 1, 'direct')]
                    for a in rnd['ann']:
                        if a[3] != 'E':
                            a[2] = DIDS[k2 - 1]
                    rnd['ann'] += gen_annotations(rng, some_old, k, 'direct')
                    k = k2
                else:
                    rnd['ann'] = gen_annotations(rng, {**new, **some_old}, k, 'direct')
                nodes = after
                case['rounds'].append(rnd)
                if rng.random() < 0.3:
                    case['rounds'].append({'second_model': True, 'guids': [], 'bad_guid': None,
                                           'realid': rng.random() < 0.5, 'rw_arm': False})
            out.append(case)
        _reset()
        return out

    def corpus(self):
        return [c for c in load_corpus('topo', hist=True)]


# ------------------------------------------------------------------------------------------------
# several aggregates partitioned in one process, earlier results looked at again afterwards
# ------------------------------------------------------------------------------------------------

def call_generate(arm, mode, guids):
    """the four ways a caller can (not) pass delegation_guids"""
    if mode == 'absent':
        return arm.generate_adms()
    if mode == 'none':
        return arm.generate_adms(None)
    if mode == 'empty':
        return arm.generate_adms({})
    return arm.generate_adms(delegation_guids=dict(guids))


def run_pair(case):
    """two different aggregates with overlapping delegation ids in the same store and process; a sequence of
    generate_adms calls (argument absent / None / {} / a dictionary); EVERY result is snapshotted when it is
    returned and again after the last call"""
    _reset()
    case = copy.deepcopy(case)
    arms = {}
    for name in ('A', 'B'):
        t, _ = build_topo_ctx(case[name])
        arm = t.as_arm()
        annotate(arm, case[name], set(snapshot(arm.storage, arm.graph_id)['nodes'].keys()))
        arms[name] = arm
    storage = arms['A'].storage
    sources = {arms[n].graph_id: n for n in arms}
    ren = {}                      # actual graph id of a partition -> stable name (first call that returned it)
    calls = []
    for i, (which, mode) in enumerate(case['calls']):
        arm = arms[which]
        garm = arm.graph_id
        before = snapshot(storage, garm)
        guids = {d: 'adm-guid-%d-%s' % (i, d) for d in case.get('guids', [])} if mode == 'dict' else {}
        o = {'garm': 'ARM', 'which': which, 'mode': mode, 'before': before, 'via': 'direct', 'asked_guids': dict(guids),
             'parsed': {'start': parsed_mismatch(arm, before)}, 'rw': {}, 'bystanders_changed': []}
        keys0 = set(store_graph_ids(storage))
        try:
            adms = call_generate(arm, mode, guids)
        except Exception as e:
            o['err'] = type(e).__name__
            o['store'] = ['ARM'] + sorted(str(g) for g in set(store_graph_ids(storage)) - keys0)
            o['after'] = o['after_generate'] = snapshot(storage, garm)
            o['parsed']['end'] = parsed_mismatch(arm, before)
            calls.append(o)
            continue
        o['_actual'] = {d: adms[d].graph_id for d in adms}
        for d in sorted(adms):
            g = adms[d].graph_id
            if g not in ren:
                ren[g] = 'ARM-of-%s' % sources[g] if g in sources else (g if g in guids.values() else 'uuid-call%d-%s' % (i, d))
        o['adms_at_return'] = {d: {'gid': ren[adms[d].graph_id], 'snap': strip_text(snapshot(storage, adms[d].graph_id))}
                               for d in sorted(adms)}
        o['store'] = ['ARM'] + sorted(ren.get(g, 'unexpected:' + str(g)) for g in set(store_graph_ids(storage)) - keys0)
        o['after_generate'] = snapshot(storage, garm)
        o['rw'] = {d: [] for d in adms}
        calls.append(o)
    # every result once more, after the last call
    for o in calls:
        arm = arms[o['which']]
        o['after'] = snapshot(storage, arm.graph_id)
        o['parsed']['end'] = parsed_mismatch(arm, o['before'])
        if '_actual' in o:
            o['adms'] = {d: {'gid': ren[g], 'snap': strip_text(snapshot(storage, g))} for d, g in o.pop('_actual').items()}
    return {'calls': calls}


class Pair(C13Stream):
    name = 'pair'
    case_type = 'list case13'
    check_fn = 'check13_pair'
    shard = 25
    rule = ('two different API-built aggregates with overlapping delegation ids in one store and one process; 2-4 '
            'generate_adms calls on them in turn, the argument absent / None / {} / a dictionary; every result is '
            'snapshotted at return and again after the last call, and it is the LATER snapshot that is compared '
            'with the model and judged by the oracle, plus: graph ids pairwise distinct across all results, an earlier '
            'result unchanged by a later call; non-trivial = both aggregates have a delegation id in common')

    def observe_here(self, case):
        try:
            return run_pair(case)
        except Exception as e:
            import traceback
            return {'build_error': type(e).__name__ + ': ' + str(e)[:200], 'tb': traceback.format_exc()[-600:]}

    def to_coq(self, case, o):
        if 'build_error' in o:
            return '[mkCase (mkGraph [] []) 0 [] (mkObs (Ok []) [] None [] None)]'
        gid = Intern()
        return clist([case_to_coq(case, c, gid=gid) for c in o['calls']])

    def oracle(self, case, o):
        if 'build_error' in o:
            return 'harness could not build the case: ' + o['build_error']
        seen = {}
        for i, c in enumerate(o['calls']):
            for d, v in c.get('adms', {}).items():
                if v['gid'] in seen:
                    j, dj = seen[v['gid']]
                    return ('shared-graph-id: the partition for %s returned by call %d (%s, argument %s) has the graph id of '
                            'the partition for %s returned by call %d (%s, argument %s)' % (
                                d, i + 1, c['which'], c['mode'], dj, j + 1, o['calls'][j]['which'], o['calls'][j]['mode']))
                seen[v['gid']] = (i, d)
        for i, c in enumerate(o['calls']):
            if 'adms' in c and c['adms'] != c['adms_at_return']:
                dd = [d for d in c['adms'] if c['adms'][d] != c['adms_at_return'][d]]
                return ('earlier-result-changed: the partitions %s returned by call %d (aggregate %s) were changed by a '
                        'later partitioning' % (dd, i + 1, c['which']))
        weak = None
        for i, c in enumerate(o['calls']):
            strict, w = oracle_case(case, c)
            if strict:
                return '%s [result of call %d on aggregate %s, argument %s, looked at after the last call]' % (
                    strict, i + 1, c['which'], c['mode'])
            weak = weak or w
        return weak

    def key(self, case, o):
        if 'calls' not in o:
            return None
        ids = [all_dids(c['before']) for c in o['calls']]
        a = [x for c, x in zip(o['calls'], ids) if c['which'] == 'A']
        b = [x for c, x in zip(o['calls'], ids) if c['which'] == 'B']
        if not a or not b or not (a[0] & b[0]):
            return None
        return stable_hash([case['calls']] + [strip_text(c['before']) for c in o['calls']])

    def describe(self, case, o):
        if 'calls' not in o:
            return {'case': case, 'impl': o}
        return {'case': case, 'impl': [{'aggregate': c['which'], 'argument': c['mode'], 'nodes': len(c['before']['nodes']),
                                        'err': c.get('err'),
                                        'partitions': {d: [v['gid'], len(v['snap']['nodes'])] for d, v in c.get('adms', {}).items()}}
                                       for c in o['calls']]}

    def histogram(self, cases, obs):
        h = {'pairs': 0, 'calls': 0, 'calls_absent': 0, 'calls_none': 0, 'calls_empty': 0, 'calls_dict': 0,
             'consecutive_absent_calls_on_different_aggregates': 0, 'common_delegation_ids': 0, 'results_rechecked_later': 0}
        for c, o in zip(cases, obs):
            if 'calls' not in o:
                continue
            h['pairs'] += 1
            prev = None
            for k in o['calls']:
                h['calls'] += 1
                h['calls_' + k['mode']] += 1
                if prev and prev['mode'] == k['mode'] == 'absent' and prev['which'] != k['which']:
                    h['consecutive_absent_calls_on_different_aggregates'] += 1
                prev = k
            h['results_rechecked_later'] += sum(1 for k in o['calls'][:-1] if 'adms' in k)
            a = [all_dids(k['before']) for k in o['calls'] if k['which'] == 'A']
            b = [all_dids(k['before']) for k in o['calls'] if k['which'] == 'B']
            if a and b:
                h['common_delegation_ids'] += len(a[0] & b[0])
        return h

    def shrink(self, case, failing):
        case = copy.deepcopy(case)
        cat = lambda w: (w or '').split(':')[0].split(' raised ')[0]
        want = cat(self.oracle(case, self.observe(case)))
        fails = lambda c: (lambda w: w is not None and cat(w) == want)(self.oracle(c, self.observe(c)))

        def try_del(lst, keep=0):
            i = len(lst) - 1
            while i >= 0 and len(lst) > keep:
                x = lst.pop(i)
                if not fails(case):
                    lst.insert(i, x)
                i -= 1
        try_del(case['calls'], keep=1)
        for n in ('A', 'B'):
            sub = case[n]
            try_del(sub['ann'])
            for st in list(sub['sites']):
                for w in st.get('workers', []):
                    try_del(w.get('comps', []))
                try_del(st.get('workers', []))
                for k in ('facs', 'p4'):
                    if st.get(k):
                        old = st[k]
                        st[k] = 0
                        if not fails(case):
                            st[k] = old
            if len(sub['sites']) > 1:
                try_del(sub['sites'], keep=1)
        return case

    def gen(self, rng, tier):
        n = 30 if tier == 'quick' else 250
        topo = Topo()
        out = []
        for _ in range(n):
            case = {'stream': 'pair'}
            k = rng.choice([1, 2, 2, 3])
            for name in ('A', 'B'):
                sub = topo.recipe(rng, big=False)
                _reset()
                arm = build_topo(copy.deepcopy(sub))
                snap = snapshot(arm.storage, arm.graph_id)
                nodes = {nid: (v['Class'], v['Stitch'] == 'true') for nid, v in snap['nodes'].items()}
                sub['via'] = 'direct'
                sub['ann'] = gen_annotations(rng, nodes, k, 'direct')
                case[name] = sub
            order = rng.choice([['A', 'B'], ['A', 'B'], ['A', 'B', 'A'], ['B', 'A', 'B', 'A'], ['A', 'A', 'B']])
            style = rng.choice(['absent', 'absent', 'mixed', 'mixed', 'none', 'empty'])
            case['calls'] = [[w, style if style != 'mixed' else rng.choice(['absent', 'absent', 'none', 'empty', 'dict'])]
                             for w in order]
            case['guids'] = [d for d in DIDS[:k] if rng.random() < 0.5]
            out.append(case)
        _reset()
        return out

    def corpus(self):
        return load_corpus('pair')


class Raw(C13Stream):
    name = 'raw'
    rule = ('raw property graphs of 2-14 nodes with arbitrary classes and edge relations (links with 1-3 connection '
            'points, connection points on two links, has/connects/depends edges in unusual places so that the '
            'ineffective rel2 filter of get_first_and_second_neighbor matters), StitchNode true/false/absent, 1-3 '
            'delegation ids incl. empty delegation objects; non-trivial = at least one delegation id')

    def gen(self, rng, tier):
        n = 360 if tier == 'quick' else 3000
        out = []
        for _ in range(n):
            nn = rng.randint(2, 14)
            classes = rng.choices(['ConnectionPoint', 'Link', 'NetworkService', 'NetworkNode', 'Component', 'CompositeNode'],
                                  weights=[38, 16, 16, 12, 12, 6], k=nn)
            nodes = []
            for i, c in enumerate(classes):
                stitch = rng.choices(['false', 'true', None, 'True'], weights=[60, 22, 14, 4])[0]
                nodes.append(['%s-%s%d' % ('g%d' % (i % 3), c[:2].lower(), i), c, stitch,
                              {'Name': 'n%d' % i, 'Type': rng.choice(['Server', 'TrunkPort', 'Patch', 'MPLS'])}])
            by = {}
            for nd in nodes:
                by.setdefault(nd[1], []).append(nd[0])
            edges = []
            for cp in by.get('ConnectionPoint', []):
                for _ in range(rng.choice([0, 1, 1, 2])):
                    if by.get('Link'):
                        edges.append([cp, rng.choice(by['Link']), rng.choices(['connects', 'has', 'depends'], weights=[85, 10, 5])[0]])
                if by.get('NetworkService') and rng.random() < 0.75:
                    edges.append([cp, rng.choice(by['NetworkService']), rng.choices(['connects', 'has'], weights=[90, 10])[0]])
            for s in by.get('NetworkService', []):
                owners = by.get('NetworkNode', []) + by.get('Component', [])
                if owners and rng.random() < 0.85:
                    edges.append([s, rng.choice(owners), rng.choices(['has', 'connects', 'depends'], weights=[75, 15, 10])[0]])
            for c in by.get('Component', []):
                if by.get('NetworkNode') and rng.random() < 0.7:
                    edges.append([c, rng.choice(by['NetworkNode']), 'has'])
            for _ in range(rng.choice([0, 0, 1, 2, 3])):
                a, b = rng.choice(nodes)[0], rng.choice(nodes)[0]
                edges.append([a, b, rng.choice(['connects', 'has', 'depends', 'peers']),
                              {'w': 'x'} if rng.random() < 0.2 else None])
            case = {'stream': 'raw', 'nodes': nodes, 'edges': edges, 'via': 'direct'}
            k = rng.choice([1, 2, 2, 3])
            nodemap = {nd[0]: (nd[1], nd[2] == 'true' and rng.random() < 0.7) for nd in nodes}
            case['ann'] = gen_annotations(rng, nodemap, k, 'direct')
            case['guids'] = [d for d in DIDS[:k] if rng.random() < 0.3]
            case['bad_guid'] = gen_bad_guid(rng, k)
            gen_rw(rng, k, case)
            case['realid'] = rng.random() < 0.5
            case['rw_arm'] = rng.random() < 0.5
            out.append(case)
        return out

    def corpus(self):
        return load_corpus('raw')


def load_corpus(stream, hist=False):
    import glob
    out = []
    for p in sorted(glob.glob(os.path.join(VERIF, 'corpus', 'C13', '*.json'))):
        with open(p) as f:
            c = json.load(f)
        if c.get('stream') == stream and bool(c.get('rounds')) == hist:
            c.pop('_comment', None)
            out.append(c)
    return out


# the witness of C13_closure_every_kept_interface_refuted (Proofs/Adm13Props.v), replayed on the implementation:
# a -L1- b -L2- c, only a is delegated; b is kept as a's peer but b's other link L2 is not.
WITNESS_ONE_HOP = {
    'stream': 'raw', 'via': 'direct', 'guids': [], 'realid': False, 'rw_arm': False,
    'nodes': [['a', 'ConnectionPoint', 'false', {}], ['l1', 'Link', 'false', {}], ['b', 'ConnectionPoint', 'false', {}],
              ['l2', 'Link', 'false', {}], ['c', 'ConnectionPoint', 'false', {}]],
    'edges': [['a', 'l1', 'connects'], ['b', 'l1', 'connects'], ['b', 'l2', 'connects'], ['c', 'l2', 'connects']],
    'ann': [['a', 'C', 'primary', 'S', None, 1]]}


def replay_one_hop():
    o = run_case(WITNESS_ONE_HOP)
    if 'adms' not in o:
        return True, 'witness could not be run: %s' % o.get('err')
    if 'primary' not in o['adms']:
        return False, 'witness produced partitions %s (reported by the streams)' % sorted(o['adms'])
    kept = sorted(o['adms']['primary']['snap']['nodes'])
    still = kept == ['a', 'b', 'l1']
    return still, {'kept_nodes': kept, 'expected_if_gap_present': ['a', 'b', 'l1'],
                   'reading': 'b is kept, its link l2 and peer c are not'}


class C13(Check):
    pid = 'C13'
    translators = ['gen_adm13']
    model_targets = ['Model/Adm13.vo']
    streams = [Topo(), Hist(), Pair(), Raw()]
    trusted_base = [
        'Coq 8.16.1 kernel (coqc), vm_compute for the correspondence evaluation; no native_compute',
        'Print Assumptions of every C13 theorem: Closed under the global context (no axioms)',
        'translator/gen_adm13.py + translator/pyast.py (class/relation arguments of the three trace calls, the '
        'drop-list variable of the second-hop filter, the delegation-type order, the guard on delegation_guids) -> Gen/Adm13Gen.v, fail-closed',
        'harness/c13.py + harness/common.py: case generation, snapshotting of the shared in-memory store, interning of '
        'ids/classes/relations/opaque property bags to N, independent decoding of the delegation JSON, cases.v writer',
        'modelled not verified: networkx Graph (adjacency, remove_node, copy), networkx_query.search_nodes, json, '
        'Delegations.from_json/to_json round trip at the value level (C12), the single shared store as a map graph id -> graph (C04)',
    ]
    assumptions = [
        'NodeIDs are unique within the aggregate model; edges join two distinct existing nodes, at most one per pair (wfb, '
        'checked on every generated case)',
        'delegation properties are decodable JSON dictionaries with unique ids (typed as id -> entry maps)',
        'graph ids drawn by uuid4 are not the aggregate model id, not one another, not a caller-supplied id (uuid_fresh); '
        'caller-supplied ids need no assumption (bad ones are rejected, 59579dc)',
    ]

    def refuted_witnesses(self):
        return [('C13_closure_every_kept_interface_refuted', replay_one_hop)]


if __name__ == '__main__':
    sys.exit(main(C13()))

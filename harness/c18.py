"""C18 - instance sizing is sufficient and minimal; components match the catalogue."""
import sys, json, os, re, itertools
from . import common
from .common import *


def py_val(o):
    """python observation (nested lists/ints/str/bool/None/{'err': cls}) -> Coq val term"""
    if isinstance(o, bool):
        return 'VB ' + cbool(o)
    if isinstance(o, int):
        return 'VZ ' + cZ(o)
    if isinstance(o, str):
        return 'VS ' + cstr(o)
    if o is None:
        return 'VNone'
    if isinstance(o, dict) and 'err' in o:
        return 'VErr ' + cstr(o['err'])
    if isinstance(o, (list, tuple)):
        return 'VL ' + clist(['(' + py_val(x) + ')' for x in o])
    raise TypeError(o)

HDR = ('From Coq Require Import List ZArith NArith.\nImport ListNotations.\n'
       'From FIM Require Import Base.Str Base.Corr Base.PySort Gen.Catalog Model.Catalog18.\n')


def repo_json(rel):
    with open(os.path.join(common.REPO, rel)) as f:
        return json.load(f)


# ------------------------------------------------------------------------------------------------
# stream 1: map_capacities_to_instance / get_instance_capacities on the threshold grid
# ------------------------------------------------------------------------------------------------

class Sizing(Stream):
    name = 'sizing'
    header = HDR
    case_type = 'caps3 * val'
    check_fn = 'check_inst'
    shard = 450
    rule = ('requests (core, ram, disk): quick = one representative per threshold cell of the catalogue values '
            '(each distinct value and max+1 per dimension) + randoms; thorough = every combination of v-1, v, v+1 '
            'over the distinct catalogue values (the grid of the property quantifier) + randoms; non-trivial = all')

    def table(self):
        """the truth for the oracle: the resource file itself, read here (not through the implementation)"""
        d = repo_json('fim/slivers/data/instance_sizes.json')
        return [(k, (v['core'], v['ram'], v['disk'])) for k, v in d.items()]

    def runtime_table(self):
        from fim.slivers.instance_catalog import InstanceCatalog
        li = InstanceCatalog().list_instances()
        return [(k, (v.core, v.ram, v.disk)) for k, v in li.items()]

    def axes(self):
        d = repo_json('fim/slivers/data/instance_sizes.json')
        return [sorted(set(v[f] for v in d.values())) for f in ('core', 'ram', 'disk')]

    def gen(self, rng, tier):
        ax = self.axes()
        if tier == 'quick':
            pts = [a + [a[-1] + 1] for a in ax]
        else:
            pts = [sorted(set(x for v in a for x in (v - 1, v, v + 1) if x >= 0)) for a in ax]
        out = [list(t) for t in itertools.product(*pts)]
        for _ in range(100 if tier == 'quick' else 2000):
            out.append([rng.choice([0, rng.randrange(0, a[-1] + 3), rng.choice(a), 10 ** 12]) for a in ax])
        return out

    def corpus(self):
        # the repository's own two test requests, corner cells, and the requests on which catalogue-order mutants went wrong
        return [[0, 0, 0], [1, 4, 90], [9, 20, 110], [1, 1, 1], [2, 256, 1000], [65, 1, 1],
                [0, 0, 50], [1, 2, 50], [1, 4, 50], [1, 4, 0], [4, 8, 0]]

    def observe(self, case, cap=None):
        """cap: the request OBJECT to hand over (history stream: objects re-used and modified in place); default fresh"""
        from fim.slivers.instance_catalog import InstanceCatalog
        from fim.slivers.capacities_labels import Capacities
        try:
            cat = InstanceCatalog()
            if cap is None:
                cap = Capacities(core=case[0], ram=case[1], disk=case[2])
            name = cat.map_capacities_to_instance(cap=cap)
            c = cat.get_instance_capacities(instance_type=name)
            caps = None if c is None else [c.core, c.ram, c.disk]
            extra = None if c is None else [v for f, v in c.__dict__.items() if f not in ('core', 'ram', 'disk')]
            return {'name': name, 'caps': caps, 'other_fields': extra,
                    'request_after': [cap.core, cap.ram, cap.disk], 'listed': stable_hash(self.runtime_table())}
        except Exception as e:
            return {'err': type(e).__name__}

    def req_term(self, case):
        return '(%s, %s, %s)' % (cZ(case[0]), cZ(case[1]), cZ(case[2]))

    def obs_val(self, o):
        return py_val(o if 'err' in o else [o['name'], o['caps']])

    def to_coq(self, case, o):
        return '(%s, %s)' % (self.req_term(case), self.obs_val(o))

    _tab = None

    def oracle(self, case, o):
        """brute-force Pareto oracle over the sizes of instance_sizes.json (read by the harness itself)"""
        if 'err' in o:
            return 'map_capacities_to_instance raised ' + o['err']
        if self._tab is None:
            self._tab = self.table()
        tab = self._tab
        names = [k for k, _ in tab]
        if o['name'] not in names:
            return 'returned name %r is not a catalogue size' % (o['name'],)
        if o['caps'] is None:
            return 'get_instance_capacities(%r) is None' % o['name']
        got = tuple(o['caps'])
        if o['name'] != 'fabric.c%d.m%d.d%d' % got:
            return 'name %s and capacities %r disagree' % (o['name'], got)
        if dict(tab)[o['name']] != got or any(o['other_fields']):
            return 'capacities of %s differ from instance_sizes.json' % o['name']
        if o['request_after'] != list(case):
            return 'the request was modified'
        fit = [v for _, v in tab if all(v[i] >= case[i] for i in range(3))]
        if fit:
            if got not in fit:
                return 'insufficient: %s does not satisfy the request although %d sizes do' % (o['name'], len(fit))
            smaller = [v for v in fit if v != got and all(v[i] <= got[i] for i in range(3))]
            if smaller:
                return 'not minimal: %r also satisfies the request and is <= %r in every dimension' % (smaller[0], got)
            if sum(1 for _, v in tab if v == got) != 1:
                return 'two sizes with the same capacities'
        else:
            if o['name'] != names[-1]:
                return 'nothing satisfies the request but %s is not the last size' % o['name']
            if any(v[i] > got[i] for _, v in tab for i in range(3)):
                return 'fallback %s is not the largest size' % o['name']
        if o['listed'] != stable_hash(tab):
            return 'list_instances() differs from instance_sizes.json'
        return None

    def key(self, case, o):
        return stable_hash(case)

    def histogram(self, cases, obs):
        h = {'nothing_fits': 0, 'exact_hit': 0, 'answers': 0}
        names = set()
        tab = dict(self._tab or self.table())
        biggest = [max(v[i] for v in tab.values()) for i in range(3)]
        for c, o in zip(cases, obs):
            if 'err' in o:
                continue
            names.add(o['name'])
            h['nothing_fits'] += any(c[i] > biggest[i] for i in range(3))
            h['exact_hit'] += o['caps'] == list(c)
        h['answers'] = len(names)
        return h

    def shrink(self, case, failing):
        case = list(case)
        try:    # a size the implementation lists differently: ask for exactly that size (a request-specific failure)
            rt = dict(self.runtime_table())
            for k, v in self.table():
                if rt.get(k) != v and failing(list(v)):
                    return list(v)
        except Exception:
            pass
        for i in range(3):
            for v in (0, 1):
                if case[i] > v:
                    old = case[i]
                    case[i] = v
                    if failing(case):
                        break
                    case[i] = old
        return case


# ------------------------------------------------------------------------------------------------
# stream 2: Base/PySort.v against sorted() with partial-order / inconsistent comparators
# ------------------------------------------------------------------------------------------------

LTS = [
    lambda a, b: a[0] <= b[0] and a[1] <= b[1] and a[2] <= b[2],       # Capacities.__lt__
    lambda a, b: a[0] < b[0] and a[1] < b[1] and a[2] < b[2],
    lambda a, b: a < b,
    lambda a, b: a[0] < b[0],
    lambda a, b: a[0] <= b[0],
    lambda a, b: (a[0] * 7 + b[1] * 13 + a[2]) % 3 == 0,
]


class _W:
    __slots__ = ('v', 'lt')

    def __init__(self, v, lt):
        self.v = v
        self.lt = lt

    def __lt__(self, o):
        return self.lt(self.v, o.v)


class PySort(Stream):
    name = 'pysort'
    header = HDR
    case_type = '(N * list telem) * list N'
    check_fn = 'check_sort'
    shard = 60
    rule = ('(comparator, list of tagged triples): CPython list.sort vs Base/PySort.v, whole output compared; sizes 0..2000 '
            '(quick <= 700), random / sorted / few-runs / nearly-sorted / catalogue-like shapes; comparators: componentwise <= '
            '(Capacities.__lt__), strict componentwise, lexicographic, first field < / <=, an inconsistent one; '
            'non-trivial = length >= 64 (merging happens)')

    def gen(self, rng, tier):
        n_cases = 150 if tier == 'quick' else 1500
        big = 700 if tier == 'quick' else 2000
        out = []
        for _ in range(n_cases):
            u = rng.random()
            if u < 0.25:
                n = rng.randrange(0, 64)
            elif u < 0.4:
                n = rng.choice([63, 64, 65, 66, 127, 128, 129])
            elif u < 0.8:
                n = rng.randrange(64, 400)
            else:
                n = rng.randrange(400, big + 1)
            m = rng.choice([2, 3, 5, 10, 100])
            l = [[rng.randrange(m), rng.randrange(m), rng.randrange(m)] for _ in range(n)]
            mode = rng.randrange(8)
            if mode == 1:
                l.sort()
            elif mode == 2:
                k = rng.randrange(1, 6)
                cuts = sorted(rng.randrange(n + 1) for _ in range(k))
                parts, p = [], 0
                for c in cuts + [n]:
                    parts += sorted(l[p:c], reverse=rng.random() < 0.3)
                    p = c
                l = parts
            elif mode == 3:
                l.sort()
                for _ in range(rng.randrange(1, 10)):
                    if n:
                        i, j = rng.randrange(n), rng.randrange(n)
                        l[i], l[j] = l[j], l[i]
            elif mode == 4:      # catalogue-like: a product grid in lexicographic order, then a low block
                g = sorted(set(tuple(x) for x in l))
                cut = rng.randrange(len(g) + 1)
                l = [list(x) for x in g[cut:] + g[:cut]]
            elif mode == 5:      # two long runs with blocks that win consistently (galloping both ways)
                a, b = sorted(l[:n // 2]), sorted(l[n // 2:])
                blk = rng.choice([1, 8, 20])
                a = [[x[0] + 2 * m * (i // blk), x[1], x[2]] for i, x in enumerate(sorted(a))]
                b = [[x[0] + 2 * m * (i // blk) + m, x[1], x[2]] for i, x in enumerate(sorted(b))]
                l = (a + b) if rng.random() < 0.5 else (b + a)
            elif mode == 6:      # a real catalogue candidate list, perturbed
                vals = self._catalogue_values()
                r = [rng.choice([0, 1, 2, 8, 30, 64]), rng.choice([0, 4, 64, 256]), rng.choice([0, 100, 1000])]
                l = [list(v) for v in vals if all(v[i] >= r[i] for i in range(3))]
                if l and rng.random() < 0.5:
                    cut = rng.randrange(len(l))
                    l = l[cut:] + l[:cut]
            out.append([rng.randrange(len(LTS)), l])
        return out

    def _catalogue_values(self):
        d = repo_json('fim/slivers/data/instance_sizes.json')
        return [[v['core'], v['ram'], v['disk']] for v in d.values()]

    def corpus(self):
        vals = self._catalogue_values()
        return [[0, vals], [0, [v for v in vals if v[1] >= 128 and v[2] >= 500]], [0, []], [0, [[1, 1, 1]]]]

    def observe(self, case):
        cid, l = case
        lt = LTS[cid]
        try:
            ws = [_W((x[0], x[1], x[2], i), lt) for i, x in enumerate(l)]
            ws.sort()
            return [w.v[3] for w in ws]
        except Exception as e:
            return {'err': type(e).__name__}

    def to_coq(self, case, o):
        cid, l = case
        el = clist(['((%s,%s,%s),%s)' % (cZ(x[0]), cZ(x[1]), cZ(x[2]), cN(i)) for i, x in enumerate(l)])
        exp = clist([cN(i) for i in o]) if isinstance(o, list) else '[999999%N]'
        return '((%s, %s), %s)' % (cN(cid), el, exp)

    def oracle(self, case, o):
        if isinstance(o, dict):
            return 'sort raised ' + o['err']
        if sorted(o) != list(range(len(case[1]))):
            return 'sort output is not a permutation'
        return None

    def key(self, case, o):
        return stable_hash(case) if len(case[1]) >= 64 else None

    def describe(self, case, o):
        return {'case': {'comparator': case[0], 'n': len(case[1]), 'head': case[1][:5]}, 'impl': (o[:10] if isinstance(o, list) else o)}

    def histogram(self, cases, obs):
        h = {'n<64': 0, '64<=n<300': 0, 'n>=300': 0}
        for c in cases:
            n = len(c[1])
            h['n<64' if n < 64 else '64<=n<300' if n < 300 else 'n>=300'] += 1
        for i in range(len(LTS)):
            h['cmp%d' % i] = sum(1 for c in cases if c[0] == i)
        return h


# ------------------------------------------------------------------------------------------------
# stream 3: generate_component for every catalogue entry x selector x id/label/naming combination
# ------------------------------------------------------------------------------------------------

UUID_RE = re.compile(r'[0-9a-f]{8}-[0-9a-f]{4}-4[0-9a-f]{3}-[89ab][0-9a-f]{3}-[0-9a-f]{12}')
BDFS = ['0000:25:00.%x' % i for i in range(8)]


KINDS = [None, 's', 0, 1, 2, 3]      # bdf label of one port: absent / a single address / a list of k addresses
LX = ['', 'm', 'v', 'mv']            # other label fields of one port: mac and/or vlan_range present


def mk_extra(i, x):
    kw = {}
    if 'm' in x:
        kw['mac'] = '02:00:00:00:00:%02x' % i
    if 'v' in x:
        kw['vlan_range'] = '%d-%d' % (i + 1, i + 100)
    return kw


def member_name(e):
    """the ComponentModelType member name the documentation derives from a catalogue entry"""
    return re.sub('[ -]', '_', e['Type']) + '_' + re.sub('[ -]', '_', e['Model'])


def entry_of_member(name):
    """(index, entry) of the FIRST catalogue entry (resource file order) whose derived member name is `name`"""
    for i, e in enumerate(repo_json('fim/slivers/data/component_catalog.json')):
        if member_name(e) == name:
            return i, e
    return None, None


def lobj_of(case):
    """object id of the label at each position (default: all distinct objects)"""
    return case.get('lobj') or list(range(len(case['labs'] or [])))


def first_pos(case, j):
    """the position whose shape the object at position j has (the first one using the same object)"""
    lobj = lobj_of(case)
    return lobj.index(lobj[j])


def mk_bdf(kind):
    if kind is None:
        return None
    if kind == 's':
        return BDFS[0]
    return BDFS[:kind]


class Components(Stream):
    """case = {'name', 'sel': ['tm', ctype|None, model|None] | ['mt', member_name], 'nsid', 'ids', 'labs': [bdf-kind...]|None,
               'lx': [other label fields per port: '' | 'm' | 'v' | 'mv'] (default all 'm'), 'parent'};
               bdf-kind: None | 's' (scalar) | k (list of k)"""
    name = 'components'
    header = HDR
    case_type = 'comp_case * val'
    check_fn = 'check_comp'
    shard = 300
    rule = ('every catalogue entry x selector (type+model, each AlsoModels alias, combined model_type member) x '
            '(ids, labels) shape (absent / exact / short / long; bdf absent, list of 0..3, scalar) x ns id x parent name x '
            'component name; for multi-port entries EVERY ordered combination of per-port bdf shapes (absent / scalar / list of 0..3), '
            'mac and vlan_range labels present or absent per port; '
            'component name; plus failing look-ups; non-trivial = entry has interfaces and ids or labels are supplied')

    def catalog(self):
        return repo_json('fim/slivers/data/component_catalog.json')

    def members(self):
        import fim.slivers.component_catalog as cc
        return cc.ComponentModelType, cc.ComponentModelTypeMap

    def gen(self, rng, tier):
        cat = self.catalog()
        enum, emap = self.members()
        names = ['nic1', 'GPU_2', 'a.b-c_d', 'x' * 40, 'n0']   # valid for component, interface AND service NAME_REGEX
        out = []
        for e in cat:
            sels = [['tm', e['Type'], e['Model']]] + [['tm', e['Type'], a] for a in e.get('AlsoModels', [])]
            sels += [['mt', member_name(e)]]      # by the catalogue TABLE, not by iterating the enum (iteration skips aliases)
            n = len(e.get('Interfaces', {}))
            shapes = [(None, None)]
            ids_ok = ['id-%d' % i for i in range(n)]
            for kinds in ([None] * n, [2] * n, [3, 1, 0, 2][:n], ['s'] * n, [0] * n):
                shapes.append((ids_ok, list(kinds)))
                shapes.append((None, list(kinds)))
            shapes += [(None, [None] * (n + 1)), (None, [1] * max(n - 1, 0)), (ids_ok + ['extra'], [None] * n),
                       (ids_ok[:-1] if n else ['extra'], [None] * n), (ids_ok, None), (ids_ok, [None] * (n + 1)),
                       (ids_ok, [None] * max(n - 1, 0))]
            for s in sels:
                for ids, labs in shapes:
                    for nsid in (None, 'ns-7'):
                        for parent in (None, 'node1'):
                            if tier == 'quick' and rng.random() > 0.3:
                                continue
                            out.append({'name': rng.choice(names), 'sel': s, 'nsid': nsid, 'ids': ids, 'labs': labs,
                                        'parent': parent})
            if n >= 2:
                # ONE label object handed to several ports (and, with spare labels, to a port and a spare position)
                for kinds in ([None] * n, [2] * n, ['s'] * n):
                    for ids in (None, ids_ok):
                        out.append({'name': rng.choice(names), 'sel': sels[0], 'nsid': None, 'ids': ids, 'labs': list(kinds),
                                    'lobj': [0] * n, 'lx': ['mv'] * n, 'parent': None})
                out.append({'name': 'nic1', 'sel': sels[0], 'nsid': None, 'ids': None, 'labs': [None] * (n + 1),
                            'lobj': list(range(n)) + [0], 'lx': ['m'] * (n + 1), 'parent': None})
                # per-port label shapes chosen INDEPENDENTLY: every ordered combination of bdf shapes across the ports
                # (a loop that carries state from one port to the next shows only on mixed shapes), the other label
                # fields (mac, vlan_range) present or absent per port at random.  Never sampled away for the
                # type+model selector; sampled for the aliases / combined member.
                for kinds in itertools.product(KINDS, repeat=n):
                    if len(set(map(repr, kinds))) == 1:
                        continue            # uniform shapes are above
                    for si, s in enumerate(sels):
                        for ids in (None, ids_ok):
                            if si > 0 and (tier == 'quick' or rng.random() > 0.5) and rng.random() > 0.15:
                                continue
                            out.append({'name': rng.choice(names), 'sel': s, 'nsid': rng.choice([None, 'ns-7']), 'ids': ids,
                                        'labs': list(kinds), 'lx': [rng.choice(LX) for _ in kinds],
                                        'parent': rng.choice([None, 'node1'])})
        types = sorted(set(e['Type'] for e in cat))
        models = sorted(set([e['Model'] for e in cat] + [a for e in cat for a in e.get('AlsoModels', [])]))
        for t in types:
            for m in models + ['blah', '']:
                out.append({'name': 'cc', 'sel': ['tm', t, m], 'nsid': None, 'ids': None, 'labs': None, 'parent': None})
        out.append({'name': 'cc', 'sel': ['foreign'], 'nsid': None, 'ids': None, 'labs': None, 'parent': None})
        out.append({'name': 'cc', 'sel': ['foreign'], 'nsid': 'ns-7', 'ids': ['id-0'], 'labs': [2], 'parent': 'node1'})
        out.append({'name': 'cc', 'sel': ['tm', None, models[0]], 'nsid': None, 'ids': None, 'labs': None, 'parent': None})
        out.append({'name': 'cc', 'sel': ['tm', types[0], None], 'nsid': None, 'ids': None, 'labs': None, 'parent': None})
        return out

    def corpus(self):
        return [{'name': 'myNIC', 'sel': ['tm', 'SmartNIC', 'ConnectX-6'], 'nsid': None, 'ids': None, 'labs': None, 'parent': None},
                {'name': 'myGPU', 'sel': ['tm', 'GPU', 'Quadro RTX 6000/8000'], 'nsid': None, 'ids': None, 'labs': None, 'parent': None},
                {'name': 'some', 'sel': ['tm', 'SmartNIC', 'blah'], 'nsid': None, 'ids': None, 'labs': None, 'parent': None},
                {'name': 'myNIC', 'sel': ['mt', 'SmartNIC_ConnectX_6'], 'nsid': None, 'ids': None, 'labs': None, 'parent': None},
                # two entries share the Model string 'ConnectX-6': their members must stay two members (seed C18-12)
                {'name': 'shnic', 'sel': ['mt', 'SharedNIC_ConnectX_6'], 'nsid': None, 'ids': ['id-0'], 'labs': [None], 'parent': None},
                {'name': 'smnic', 'sel': ['mt', 'SmartNIC_ConnectX_6'], 'nsid': None, 'ids': ['id-0', 'id-1'], 'labs': [2, None],
                 'parent': None}]

    def call(self, case, pool=None):
        """run generate_component; returns (component | {'err'}, the label objects handed over, the id list handed over)"""
        from fim.slivers.component_catalog import ComponentCatalog
        from fim.slivers.attached_components import ComponentType
        from fim.slivers.capacities_labels import Labels
        enum, emap = self.members()
        labs = None
        if case['labs'] is not None:
            labs = []
            lx = case.get('lx') or ['m'] * len(case['labs'])
            lobj = lobj_of(case)
            objs = dict(pool or {})
            for i, k in enumerate(case['labs']):
                if lobj[i] not in objs:           # one python object per object id; its shape = first position using it
                    kw = mk_extra(lobj[i], lx[i])
                    kw['device_name'] = 'obj-%d' % lobj[i]      # survives copying: identifies the caller's object by value
                    b = mk_bdf(k)
                    if b is not None:
                        kw['bdf'] = b
                    objs[lobj[i]] = Labels(**kw)
                labs.append(objs[lobj[i]])
        kw = {}
        s = case['sel']
        if s[0] == 'mt':
            if s[1] not in enum.__members__:
                return {'err': 'NoSuchMember'}, labs, None
            kw['model_type'] = enum.__members__[s[1]]
        elif s[0] == 'foreign':
            kw['model_type'] = ComponentType.GPU          # an enum member, but not of the combined enumeration
        else:
            kw['ctype'] = None if s[1] is None else ComponentType[s[1]]
            kw['model'] = s[2]
        ids = None if case['ids'] is None else list(case['ids'])
        try:
            c = ComponentCatalog().generate_component(name=case['name'], ns_node_id=case['nsid'], interface_node_ids=ids,
                                                      interface_labels=labs, parent_name=case['parent'], **kw)
        except Exception as ex:
            return {'err': type(ex).__name__}, labs, ids
        return c, labs, ids

    def observe(self, case):
        c, labs, _ = self.call(case)
        return self.full(c, case, labs)

    def full(self, c, case, labs):
        """{'res': component tree | {'err'}, 'after': local_name of every label object the caller handed over, now}"""
        cp = lambda x: list(x) if isinstance(x, list) else x
        return {'res': c if isinstance(c, dict) else self.snapshot(c, case, labs),
                'after': [cp(l.local_name) for l in (labs or [])]}

    def snapshot(self, c, case, labs):
        """canonical observation of a component object (may be taken again later: aliasing checks)"""
        cp = lambda x: list(x) if isinstance(x, list) else x      # the observation must not alias the observed lists
        supplied = set(case['ids'] or []) | {case['nsid']}

        def idv(x):
            if x in supplied:
                return x
            return None if isinstance(x, str) and UUID_RE.fullmatch(x) else 'NOT-A-UUID:%r' % (x,)
        fresh = []
        ns = None
        nsi = c.network_service_info
        if nsi is not None:
            svcs = list(nsi.network_services.items())
            if len(svcs) != 1 or svcs[0][0] != svcs[0][1].resource_name:
                return {'err': 'SHAPE:%d network services' % len(svcs)}
            n = svcs[0][1]
            ifs = []
            for key, i in n.interface_info.interfaces.items():
                l = i.labels
                tag = None
                if isinstance(l.device_name, str) and l.device_name.startswith('obj-'):
                    tag = int(l.device_name[4:])
                cap = i.capacities
                others = [v for f, v in cap.__dict__.items() if f not in ('unit', 'bw')] + \
                         [v for f, v in l.__dict__.items() if f not in ('bdf', 'mac', 'vlan_range', 'local_name', 'device_name')]
                if key != i.resource_name or any(others):
                    return {'err': 'SHAPE:interface %s' % key}
                if tag is not None:
                    fp = lobj_of(case).index(tag)
                    want = mk_extra(tag, (case.get('lx') or ['m'] * len(labs))[fp])
                    if (l.mac, l.vlan_range) != (want.get('mac'), want.get('vlan_range')):
                        return {'err': 'SHAPE:interface %s mac/vlan_range labels changed' % key}
                elif l.mac is not None or l.vlan_range is not None:
                    return {'err': 'SHAPE:interface %s got mac/vlan_range labels nobody supplied' % key}
                fresh.append(i.node_id)
                ifs.append([i.resource_name, None if i.resource_type is None else str(i.resource_type), idv(i.node_id),
                            tag, cp(l.bdf), cp(l.local_name), cap.unit, cap.bw])
            fresh.append(n.node_id)
            ns = [idv(n.node_id), n.resource_name, str(n.resource_type), str(n.layer), ifs]
        fresh = [x for x in fresh if x not in supplied]
        if len(set(fresh)) != len(fresh):
            return {'err': 'SHAPE:generated ids repeat'}
        return [c.resource_name, c.resource_model, None if c.resource_type is None else str(c.resource_type), c.details, ns]

    def case_term(self, case):
        s = case['sel']
        if s[0] == 'foreign':
            sel = '(ByModelType 0%N)'
        elif s[0] == 'mt':
            idx, _ = entry_of_member(s[1])
            sel = '(ByModelType %s)' % cN(0 if idx is None else idx + 1)
        else:
            sel = '(ByTypeModel %s %s)' % (copt(s[1], cstr), copt(s[2], cstr))

        def lab(i, k):
            b = 'BNone' if k is None else ('(BStr %s)' % cstr(mk_bdf(k)) if k == 's'
                                           else '(BList %s)' % clist([cstr(x) for x in mk_bdf(k)]))
            return '{| lab_bdf := %s; lab_tag := %s |}' % (b, cN(lobj[i]))
        ids = copt(case['ids'], lambda l: clist([cstr(x) for x in l]))
        lobj = lobj_of(case)
        labs = copt(case['labs'], lambda l: clist([lab(i, l[first_pos(case, i)]) for i in range(len(l))]))
        return '(%s, %s, %s, %s, %s, %s)' % (cstr(case['name']), sel, copt(case['nsid'], cstr), ids, labs,
                                             copt(case['parent'], cstr))

    def obs_val(self, o):
        return py_val([o['res'], o['after']])

    def to_coq(self, case, o):
        return '(%s, %s)' % (self.case_term(case), self.obs_val(o))

    def entry_for(self, case):
        cat = self.catalog()
        s = case['sel']
        if s[0] == 'foreign':
            return 'KeyError'
        if s[0] == 'mt':
            _, e = entry_of_member(s[1])        # the truth is the resource file, not the implementation's own map
            return e if e is not None else 'KeyError'
        if s[1] is None or s[2] is None:
            return 'RuntimeError'
        for e in cat:
            if e['Type'] == s[1] and (e['Model'] == s[2] or s[2] in e.get('AlsoModels', [])):
                return e
        return 'CatalogException'

    def oracle(self, case, o):
        """the component matches the catalogue entry (read here from the JSON file, independently of the model)"""
        after = o['after']
        o = o['res']
        why = self.oracle_res(case, o)
        if why:
            return why
        # the caller's own label objects: snapshot before (they are built with local_name unset) vs after the call
        if any(x is not None for x in after):
            return 'caller label object modified: local_name %r stamped into the Labels objects handed over' % (after,)
        return None

    def oracle_res(self, case, o):
        e = self.entry_for(case)
        if isinstance(e, str):
            return None if o == {'err': e} else 'look-up of %r should raise %s, got %r' % (case['sel'], e, o)
        if isinstance(o, dict):
            ports = e.get('Interfaces')
            n = len(ports) if ports is not None else None
            ids, labs = case['ids'], case['labs']
            legit = ports is None or ((ids is None or len(ids) == n) and
                                      (labs is None or len(labs) == n) and not (ids is not None and labs is None))
            if legit:
                return 'well-formed request for %s/%s raised %s' % (e['Type'], e['Model'], o['err'])
            return None if not o['err'].startswith('SHAPE') else o['err']
        name, model, ctype, details, ns = o
        if (name, model, ctype, details) != (case['name'], e['Model'], e['Type'], e['Details']):
            return 'name/model/type/details differ from the catalogue entry: %r' % ([name, model, ctype, details],)
        ports = e.get('Interfaces')
        if ports is None:
            return None if ns is None else 'component without catalogued interfaces got a network service'
        if ns is None:
            return 'catalogued interfaces missing'
        ids, labs = case['ids'], case['labs']
        n = len(ports)
        if (ids is not None and (len(ids) != n or labs is None or len(labs) != n)) or (labs is not None and len(labs) < n):
            return 'ids/labels of the wrong length were accepted'
        nsid, nsname, nstype, layer, ifs = ns
        fpga = e['Type'] == 'FPGA'
        want_ns = ((case['parent'] + '-') if case['parent'] else '') + case['name'] + ('-l2p4' if fpga else '-l2ovs')
        if nsid != case['nsid'] or nsname != want_ns or nstype != ('P4' if fpga else 'OVS') or layer != 'L2':
            return 'network service differs: %r' % ([nsid, nsname, nstype, layer],)
        if [i[0] for i in ifs] != [case['name'] + '-' + p for p in ports]:
            return 'interfaces are not exactly the catalogued ports: %r' % [i[0] for i in ifs]
        kind = {'SmartNIC': 'DedicatedPort', 'FPGA': 'DedicatedPort', 'SharedNIC': 'SharedPort'}.get(e['Type'])
        for j, (p, i) in enumerate(zip(ports, ifs)):
            _, ikind, iid, tag, bdf, local, unit, bw = i
            if ikind != kind:
                return 'interface kind %r for a %s' % (ikind, e['Type'])
            if bw != (0 if e['Type'] == 'SharedNIC' else int(ports[p])):
                return 'port speed %r differs from the catalogue (%s)' % (bw, ports[p])
            if iid != (ids[j] if ids is not None else None):
                return 'interface %s carries id %r, supplied %r' % (p, iid, ids[j] if ids else None)
            if tag != (lobj_of(case)[j] if labs is not None else None):
                return 'interface %s carries label object #%r' % (p, tag)
            k = labs[first_pos(case, j)] if labs is not None else None
            want_bdf = mk_bdf(k)
            if bdf != want_bdf:
                return 'bdf label changed'
            if local != ([p] * len(want_bdf) if isinstance(want_bdf, list) else p):
                if labs is not None and lobj_of(case)[:len(ports)].count(lobj_of(case)[j]) > 1:
                    return ('port %s shows local_name %r: the caller label object it shares with another port was '
                            'overwritten' % (p, local))
                return 'local_name %r' % (local,)
            want_unit = len(want_bdf) if isinstance(want_bdf, list) else 1
            if unit != want_unit:
                return 'unit count %r instead of %r for %s' % (
                    unit, want_unit, 'a scalar bdf label' if isinstance(want_bdf, str) else
                    'no bdf label' if want_bdf is None else 'bdf list of %d' % len(want_bdf))
        return None

    def key(self, case, o):
        e = self.entry_for(case)
        if isinstance(e, dict) and 'Interfaces' in e and (case['ids'] is not None or case['labs'] is not None):
            return stable_hash(case)
        return None

    def histogram(self, cases, obs):
        h = {'ok': 0, 'by_model_type': 0, 'alias': 0, 'scalar_bdf': 0, 'mixed_port_shapes': 0, 'shared_label_object': 0}
        for c, o in zip(cases, obs):
            o = o['res']
            h['shared_label_object'] += len(set(lobj_of(c))) < len(lobj_of(c))
            if isinstance(o, dict):
                h[o['err']] = h.get(o['err'], 0) + 1
            else:
                h['ok'] += 1
            h['by_model_type'] += c['sel'][0] == 'mt'
            h['scalar_bdf'] += bool(c['labs']) and 's' in c['labs']
            h['mixed_port_shapes'] += bool(c['labs']) and len(set(map(repr, c['labs']))) > 1
        cat = self.catalog()
        al = set(a for e in cat for a in e.get('AlsoModels', []))
        h['alias'] = sum(1 for c in cases if c['sel'][0] == 'tm' and c['sel'][2] in al)
        return h

    def shrink(self, case, failing):
        case = dict(case)
        for k, v in (('parent', None), ('nsid', None), ('name', 'cc')):
            old = case[k]
            case[k] = v
            if not failing(case):
                case[k] = old
        if case['labs']:
            for j in range(len(case['labs'])):
                old = case['labs'][j]
                labs = list(case['labs'])
                labs[j] = None
                c2 = dict(case, labs=labs)
                if failing(c2):
                    case = c2
        return case


class Enum(Stream):
    name = 'enum'
    header = HDR
    case_type = 'unit * val'
    check_fn = 'check_enum'
    rule = ('the one ComponentModelType enumeration built at import, observed by iteration (names, values, mapped entries) AND by the '
            'catalogue table: for every entry the derived member name exists, is a member of its own (not an alias, distinct object) '
            'and maps back to that entry; member count = entry count')

    def gen(self, rng, tier):
        return [0]

    def observe(self, case):
        import fim.slivers.component_catalog as cc
        try:
            en, mp = cc.ComponentModelType, cc.ComponentModelTypeMap
            it = [[m.name, m.value, [mp[m]['Model'], mp[m]['Type']]] for m in en]
            by_entry = []
            for e in repo_json('fim/slivers/data/component_catalog.json'):      # by the catalogue TABLE
                nm = member_name(e)
                m = en.__members__.get(nm)
                by_entry.append([nm, None] if m is None else
                                [nm, m.name, id(m), [mp[m]['Model'], mp[m]['Type']] if m in mp else None])
            return {'iter': it, 'by_entry': by_entry, 'n_members': len(list(en)), 'n_names': len(en.__members__)}
        except Exception as e:
            return {'err': type(e).__name__}

    def to_coq(self, case, o):
        return '(tt, %s)' % py_val(o if 'err' in o else o['iter'])

    def oracle(self, case, o):
        if 'err' in o:
            return 'enumeration raised ' + o['err']
        cat = repo_json('fim/slivers/data/component_catalog.json')
        if o['n_members'] != len(cat):
            return 'the combined enumeration has %d members for %d catalogue entries' % (o['n_members'], len(cat))
        seen = {}
        for row, e in zip(o['by_entry'], cat):
            nm = row[0]
            if row[1] is None:
                return 'no member %s for entry %s/%s' % (nm, e['Type'], e['Model'])
            _, canon, ident, mapped = row
            if canon != nm:
                return 'member name %s is only an alias of %s: entry %s/%s has no member of its own' % (nm, canon, e['Type'], e['Model'])
            if ident in seen:
                return 'entries %s and %s share one member object' % (seen[ident], nm)
            seen[ident] = nm
            if mapped != [e['Model'], e['Type']]:
                return 'member %s maps to %r, not to its entry %s/%s' % (nm, mapped, e['Type'], e['Model'])
        it = o['iter']
        if sorted(x[2] for x in it) != sorted([e['Model'], e['Type']] for e in cat):
            return 'the combined type-model enumeration does not list exactly the catalogue entries: %r' % ([x[2] for x in it],)
        for (nm, v, (m, t)), e in zip(it, cat):
            if nm != member_name(e) or [m, t] != [e['Model'], e['Type']]:
                return 'member %s does not denote entry %s/%s' % (nm, e['Type'], e['Model'])
        if len(set(repr(x[1]) for x in it)) != len(it):
            return 'member values repeat'
        return None

    def key(self, case, o):
        return 'enum'


# ------------------------------------------------------------------------------------------------
# stream 5: histories -- no state may leak from one call to the next
# ------------------------------------------------------------------------------------------------

def mutate_component(c, labs, ids):
    """the caller modifies, in place, every mutable part of what generate_component returned / was handed"""
    nsi = c.network_service_info
    if nsi is not None:
        for n in list(nsi.network_services.values()):
            for i in list(n.interface_info.interfaces.values()):
                cap = i.capacities
                cap._set_fields(bw=cap.bw + 7, unit=cap.unit + 5, mtu=9000)
                l = i.labels
                if isinstance(l.bdf, list):
                    l.bdf.append('0000:ff:00.0')
                if isinstance(l.local_name, list):
                    l.local_name.append('mutated')
                l._set_fields(local_name='mutated', bdf='0000:ee:00.0', vlan_range='7-8')
                i.node_id = 'mutated-id'
                i.resource_type = None
            n.interface_info.interfaces.clear()
            n.node_id = 'mutated-ns'
            n.layer = None
        nsi.network_services.clear()
    c.details = 'mutated'
    c.resource_model = 'mutated'
    c.resource_type = None
    if labs is not None:
        labs.clear()
    if ids is not None:
        ids[:] = ['mutated'] * (len(ids) + 1)


class History(Stream):
    """case = {'ops': [...]}; ops: ['map', k, [core, ram, disk]]  request object k (k = -1: a fresh object) is SET IN PLACE to
       these values and mapped; ['gen', gid, component-case]  generate and keep the result as gid; ['mutate', gid]  modify
       result gid, its label objects and its id list in place; ['recheck', gid]  observe result gid again"""
    name = 'history'
    header = HDR
    case_type = 'list hop * list val'
    check_fn = 'check_hist'
    shard = 40
    rule = ('sequences of 6..16 calls: map_capacities_to_instance on 2 long-lived request objects that are modified in place '
            'between calls (and on fresh ones; repeated identical values interleaved with different ones), generate_component for '
            'same / other entries interleaved with in-place modification of every mutable part of earlier results (port capacities, '
            'labels, bdf / local_name lists, ids, interface and service dicts, the id and label lists handed over) and re-observation '
            'of untouched earlier results; every response compared with the model and judged by the sizing / components oracles; '
            'non-trivial = the history re-uses a modified request object or generates after a modification')

    def __init__(self):
        self.sz = Sizing()
        self.cp = Components()

    def gen(self, rng, tier):
        n_cases = 150 if tier == 'quick' else 800
        ax = self.sz.axes()
        cat = [e for e in self.cp.catalog()]
        with_ifs = [e for e in cat if 'Interfaces' in e]
        out = []
        for _ in range(n_cases):
            ops, gids, mutated = [], [], set()
            pool = [[rng.choice(a + [a[-1] + 1, 0]) for a in ax] for _ in range(3)]
            kind = rng.choice(['sizing', 'components', 'mixed'])
            for _ in range(rng.randrange(6, 17)):
                u = rng.random()
                if kind == 'sizing' or (kind == 'mixed' and u < 0.4):
                    ops.append(['map', rng.choice([0, 0, 1, 1, -1]), list(rng.choice(pool))])
                    continue
                u = rng.random()
                live = [g for g in gids if g not in mutated]
                if u < 0.45 or not gids:
                    e = rng.choice(with_ifs) if rng.random() < 0.85 else rng.choice(cat)
                    if gids and rng.random() < 0.5:       # the same entry / the same call again
                        prev = [o for o in ops if o[0] == 'gen'][-1][2]
                        case = dict(prev, name=rng.choice(['nic1', 'n0']))
                    else:
                        n = len(e.get('Interfaces', {}))
                        lab = rng.random() < 0.7
                        case = {'name': rng.choice(['nic1', 'n0', 'GPU_2']), 'sel': ['tm', e['Type'], e['Model']],
                                'nsid': rng.choice([None, 'ns-7']),
                                'ids': ['id-%d' % i for i in range(n)] if lab and rng.random() < 0.5 else None,
                                'labs': [rng.choice(KINDS) for _ in range(n)] if lab else None,
                                'lx': [rng.choice(LX) for _ in range(n)], 'parent': rng.choice([None, 'node1'])}
                    gid = len(gids)
                    src = None
                    cands = [o for o in ops if o[0] == 'gen' and o[1] not in mutated and o[2].get('labs') and len(o[2]['labs']) >= 2
                             and len(set(lobj_of(o[2]))) == len(o[2]['labs'])]
                    if cands and rng.random() < 0.35:
                        o0 = rng.choice(cands)          # same entry, the same label OBJECTS in reverse order
                        c0 = o0[2]
                        case = dict(c0, name=rng.choice(['nic1', 'n0']), ids=None, labs=list(reversed(c0['labs'])),
                                    lx=list(reversed(c0.get('lx') or ['m'] * len(c0['labs']))),
                                    lobj=list(reversed(lobj_of(c0))))
                        src = o0[1]
                    elif rng.random() < 0.05:
                        case = dict(case, sel=['foreign'])
                    gids.append(gid)
                    ops.append(['gen', gid, case] + ([src] if src is not None else []))
                elif u < 0.8 and live:
                    g = rng.choice(live)
                    mutated.add(g)
                    ops.append(['mutate', g])
                elif live:
                    ops.append(['recheck', rng.choice(live)])
            out.append({'ops': ops})
        return out

    def corpus(self):
        nic = {'name': 'nic1', 'sel': ['tm', 'SmartNIC', 'ConnectX-6'], 'nsid': None, 'ids': None, 'labs': None, 'parent': None}
        return [{'ops': [['map', 0, [1, 1, 1]], ['map', 0, [64, 256, 1000]], ['map', 0, [1, 1, 1]], ['map', 0, [65, 1, 1]],
                         ['map', -1, [1, 1, 1]], ['map', 0, [1, 1, 1]]]},
                {'ops': [['gen', 0, nic], ['gen', 1, nic], ['mutate', 1], ['recheck', 0], ['gen', 2, nic],
                         ['gen', 3, dict(nic, sel=['tm', 'SmartNIC', 'ConnectX-5'])], ['mutate', 3],
                         ['gen', 4, dict(nic, sel=['tm', 'FPGA', 'Xilinx-U280'])], ['recheck', 2]]}]

    def observe(self, case):
        from fim.slivers.capacities_labels import Capacities
        objs = {}
        held = {}
        out = []
        for op in case['ops']:
            try:
                if op[0] == 'map':
                    k, v = op[1], op[2]
                    cap = objs.get(k) if k >= 0 else None
                    if cap is None:
                        cap = Capacities()
                        if k >= 0:
                            objs[k] = cap
                    cap._set_fields(core=v[0], ram=v[1], disk=v[2])          # in place
                    out.append(self.sz.observe(v, cap=cap))
                elif op[0] == 'gen':
                    pool = None
                    if len(op) > 3:         # hand over the SAME label objects an earlier call was given (other positions)
                        pool = {int(l.device_name[4:]): l for l in (held[op[3]][1] or [])}
                    c, labs, ids = self.cp.call(op[2], pool)
                    held[op[1]] = (c, labs, ids, op[2])
                    out.append(self.cp.full(c, op[2], labs))
                elif op[0] == 'mutate':
                    c, labs, ids, _ = held[op[1]]
                    if not isinstance(c, dict):
                        mutate_component(c, labs, ids)
                    out.append(None)
                else:
                    c, labs, ids, cc = held[op[1]]
                    out.append(self.cp.full(c, cc, labs))
            except Exception as e:
                out.append({'err': 'HARNESS:' + type(e).__name__})
        return out

    def _gen_case(self, case, gid):
        for op in case['ops']:
            if op[0] == 'gen' and op[1] == gid:
                return op[2]

    def to_coq(self, case, obs):
        ops, vals = [], []
        for op, o in zip(case['ops'], obs):
            if op[0] == 'map':
                ops.append('OpMap %s' % self.sz.req_term(op[2]))
                vals.append(self.sz.obs_val(o) if isinstance(o, dict) and ('name' in o or 'err' in o) else py_val(o))
            elif op[0] == 'mutate':
                ops.append('OpSkip')
                vals.append(py_val(o))
            else:
                cc = op[2] if op[0] == 'gen' else self._gen_case(case, op[1])
                ops.append('OpGen %s' % self.cp.case_term(cc))
                vals.append(self.cp.obs_val(o) if isinstance(o, dict) and 'res' in o else py_val(o))
        return '(%s, %s)' % (clist(ops), clist(['(%s)' % v for v in vals]))

    def oracle(self, case, obs):
        first = {}
        for n, (op, o) in enumerate(zip(case['ops'], obs)):
            why = None
            if isinstance(o, dict) and str(o.get('err', '')).startswith('HARNESS'):
                why = o['err']
            elif op[0] == 'map':
                why = self.sz.oracle(op[2], o)
                if why is None and o.get('request_after') != list(op[2]):
                    why = 'the request was modified'
            elif op[0] == 'gen':
                first[op[1]] = o
                why = self.cp.oracle(op[2], o)
            elif op[0] == 'recheck':
                if o != first.get(op[1]):
                    why = 'the result of an earlier generate_component call changed after ANOTHER result was modified in place'
                else:
                    why = self.cp.oracle(self._gen_case(case, op[1]), o)
            if why:
                return 'call #%d %s: %s' % (n, op[0], why)
        return None

    def key(self, case, obs):
        ops = case['ops']
        seen = set()
        for n, op in enumerate(ops):
            if op[0] == 'map' and op[1] >= 0:
                if op[1] in seen:
                    return stable_hash(case)
                seen.add(op[1])
            if op[0] == 'mutate' and any(o[0] == 'gen' for o in ops[n + 1:]):
                return stable_hash(case)
        return None

    def describe(self, case, obs):
        return {'case': case, 'impl': [(o if not isinstance(o, dict) or 'err' in o else o.get('name')) for o in obs][:16]}

    def histogram(self, cases, obs):
        h = {'map': 0, 'gen': 0, 'mutate': 0, 'recheck': 0, 'map_on_reused_object': 0, 'gen_after_mutate': 0, 'ops': 0,
             'gen_with_label_objects_of_earlier_call': sum(1 for c in cases for o in c['ops'] if o[0] == 'gen' and len(o) > 3)}
        for c in cases:
            seen, mut = set(), False
            for op in c['ops']:
                h[op[0]] += 1
                h['ops'] += 1
                if op[0] == 'map' and op[1] >= 0:
                    h['map_on_reused_object'] += op[1] in seen
                    seen.add(op[1])
                mut = mut or op[0] == 'mutate'
                h['gen_after_mutate'] += op[0] == 'gen' and mut
        return h

    def fails_fresh(self, case):
        """does the history fail in a FRESH interpreter?  (hidden state left by earlier cases of this process must not
        be needed by the replay: it has to reproduce on its own)"""
        import subprocess
        code = ('import sys, json; sys.path.insert(0, %r); from harness import c18, common; common.setup_repo_path(); '
                'st = c18.History(); c = json.loads(sys.stdin.read()); print("FAILS" if st.oracle(c, st.observe(c)) else "PASSES")'
                % common.VERIF)
        env = dict(os.environ, PYTHONPATH=common.REPO, PYTHONHASHSEED='0')
        try:
            p = subprocess.run([common.PY, '-W', 'ignore', '-c', code], input=json.dumps(case), capture_output=True,
                               text=True, timeout=120, env=env)
            return 'FAILS' in p.stdout
        except Exception:
            return False

    def shrink(self, case, failing):
        if not self.fails_fresh(case):
            return case
        failing = self.fails_fresh
        ops = list(case['ops'])
        i = len(ops) - 1
        while i >= 0:
            op = ops[i]
            cand = [o for j, o in enumerate(ops) if j != i and not (op[0] == 'gen' and (
                (o[0] in ('mutate', 'recheck') and o[1] == op[1]) or (o[0] == 'gen' and len(o) > 3 and o[3] == op[1])))]
            if cand and failing({'ops': cand}):
                ops = cand
                i = min(i, len(ops)) - 1
            else:
                i -= 1
        return {'ops': ops}


# ------------------------------------------------------------------------------------------------
# stream 6: component_details / search_catalog
# ------------------------------------------------------------------------------------------------

class Lookup(Stream):
    """case = ['details', model] | ['search', component-type name]"""
    name = 'lookup'
    header = HDR
    case_type = '(N * str) * val'
    check_fn = 'check_lookup'
    rule = ('component_details for every Model, AlsoModels alias and some unknown names; search_catalog for every ComponentType '
            'member; exhaustive over the catalogue; non-trivial = the look-up succeeds')

    def gen(self, rng, tier):
        from fim.slivers.attached_components import ComponentType
        cat = repo_json('fim/slivers/data/component_catalog.json')
        models = sorted(set([e['Model'] for e in cat] + [a for e in cat for a in e.get('AlsoModels', [])]))
        return [['details', m] for m in models + ['blah', '', 'connectx-6']] + [['search', t.name] for t in ComponentType]

    def observe(self, case):
        from fim.slivers.component_catalog import ComponentCatalog
        from fim.slivers.attached_components import ComponentType
        try:
            if case[0] == 'details':
                return ComponentCatalog().component_details(model=case[1])
            return [[k, v] for k, v in ComponentCatalog().search_catalog(ctype=ComponentType[case[1]]).items()]
        except Exception as e:
            return {'err': type(e).__name__}

    def to_coq(self, case, o):
        return '((%s, %s), %s)' % (cN(0 if case[0] == 'details' else 1), cstr(case[1]), py_val(o))

    def oracle(self, case, o):
        cat = repo_json('fim/slivers/data/component_catalog.json')
        if case[0] == 'details':
            ds = [e['Details'] for e in cat if e['Model'] == case[1]]
            if not ds:
                return None if o == {'err': 'CatalogException'} else 'details of unknown model %r: %r' % (case[1], o)
            return None if o in ds else 'component_details(%r) = %r is not the Details of an entry with that Model' % (case[1], o)
        es = [e for e in cat if e['Type'] == case[1]]
        if not es:
            return None if o == {'err': 'CatalogException'} else 'search of a type without entries: %r' % (o,)
        if isinstance(o, dict):
            return 'search_catalog(%s) raised %s' % (case[1], o['err'])
        if sorted(k for k, _ in o) != sorted(set(e['Model'] for e in es)) or \
                any([k, v] not in [[e['Model'], e['Details']] for e in es] for k, v in o):
            return 'search_catalog(%s) does not list exactly the entries of that type: %r' % (case[1], o)
        return None

    def key(self, case, o):
        return None if isinstance(o, dict) else stable_hash(case)


class C18(Check):
    pid = 'C18'
    translators = ['gen_catalog', 'gen_caps']
    model_targets = ['Model/Catalog18.vo']
    streams = [Sizing(), PySort(), Components(), Enum(), History(), Lookup()]
    trusted_base = [
        'Coq 8.16.1 kernel (coqc), vm_compute for the finite obligations over the regenerated catalogue and for the correspondence',
        'Print Assumptions of every C18 theorem: Closed under the global context (no axioms)',
        'translator/gen_catalog.py (JSON resource files + ComponentType -> Gen/Catalog.v), fail-closed; the running '
        'catalogue (list_instances) is compared with the tables on every run (static obligation)',
        'Base/PySort.v is a hand transcription of CPython 3.12 list.sort (not verified against listobject.c); it is compared '
        'with the running interpreter on every run (stream pysort) and on every request of stream sizing',
        'Model/Catalog18.v hand-transcribes instance_catalog.py:70-87 and component_catalog.py:65-184/232-254; tied by the streams',
        'modelled not verified: json.load, dict ordering, enum functional API, uuid4 freshness, sliver setters, NAME_REGEX (C16)',
    ]
    assumptions = ['catalogue capacities set only core/ram/disk (translator fails closed otherwise)',
                   'component and interface names match the slivers\' NAME_REGEX (set_name raises otherwise; C16)',
                   'interface label objects handed to generate_component are distinct objects']

    def extra_static(self, ctx):
        """the catalogue the implementation serves at run time is the table the theorems are about"""
        sys.path.insert(0, os.path.join(common.VERIF, 'translator'))
        out = []
        try:
            import gen_catalog
            inst = gen_catalog.read_instances(common.REPO)
            tab = Sizing().runtime_table()
            ok = [(n, (c, r, d)) for n, c, r, d in inst] == tab
            out.append({'name': 'list_instances() equals the regenerated inst_sizes table (order, names, capacities)',
                        'ok': bool(ok), 'detail': '%d sizes' % len(tab)})
        except Exception as e:
            out.append({'name': 'list_instances() equals the regenerated inst_sizes table', 'ok': False, 'detail': repr(e)})
        try:
            import fim.slivers.component_catalog as cc
            cat = repo_json('fim/slivers/data/component_catalog.json')
            en = cc.ComponentModelType
            names = [member_name(e) for e in cat]
            ok = len(list(en)) == len(cat) and [m.name for m in en] == names and len(en.__members__) == len(cat)
            out.append({'name': 'the combined enumeration has exactly one member per catalogue entry (no aliases)', 'ok': bool(ok),
                        'detail': '%d members, %d names, %d entries' % (len(list(en)), len(en.__members__), len(cat))})
        except Exception as e:
            out.append({'name': 'the combined enumeration has exactly one member per catalogue entry (no aliases)', 'ok': False,
                        'detail': repr(e)})
        return out


if __name__ == '__main__':
    sys.exit(main(C18()))

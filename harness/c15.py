"""C15 - capacity arithmetic and comparison obey their algebraic laws."""
import sys, copy
from . import common
from .common import *


def py_val(o):
    """python observation (nested lists/ints/str/bool/None/('err',cls)) -> Coq val term"""
    if isinstance(o, bool):
        return 'VB ' + cbool(o)
    if isinstance(o, int):
        return 'VZ ' + cZ(o)
    if isinstance(o, str):
        return 'VS ' + cstr(o)
    if o is None:
        return 'VNone'
    if isinstance(o, dict) and 'err' in o:
        return 'VErr ' + cstr(o['err'])
    if isinstance(o, (list, tuple)):
        return 'VL ' + clist(['(' + py_val(x) + ')' for x in o])
    raise TypeError(o)


class Triples(Stream):
    name = 'triples'
    header = 'From Coq Require Import List ZArith NArith.\nImport ListNotations.\nFrom FIM Require Import Base.Str Model.Caps.\n'
    case_type = '(caps * caps * caps) * val'
    check_fn = 'check3'
    rule = ('triples (a,b,c) of capacity values over all fields: zeros, small, 10^30-size and (for the printers) '
            'negative results of subtraction; non-trivial = at least two fields non-zero in a and b; distinct by value')

    def fields(self):
        from fim.slivers.capacities_labels import Capacities
        return list(Capacities().__dict__.keys())

    def gen(self, rng, tier):
        n = 600 if tier == 'quick' else 12000
        nf = len(self.fields())
        pools = [[0], [0, 1], [0, 1, 2, 3, 5, 8, 999, 1000, 1001, 999999, 1000000, 123456789],
                 [0, 10 ** 30, 10 ** 30 + 1, 2 ** 64, 2 ** 63 - 1, 7], list(range(0, 20))]
        out = []
        for i in range(n):
            tr = []
            mode = rng.randrange(6)
            for j in range(3):
                pool = pools[rng.randrange(len(pools))]
                if mode == 0 and j == 1:
                    tr.append(list(tr[0]))      # b = a (equal operands)
                elif mode == 1 and j == 1:
                    tr.append([x + rng.choice([0, 0, 1]) for x in tr[0]])   # a fits in b
                else:
                    tr.append([rng.choice(pool) if rng.random() < 0.7 else 0 for _ in range(nf)])
            out.append(tr)
        return out

    def corpus(self):
        nf = len(self.fields())
        z = [0] * nf
        return [[z, z, z], [[1] * nf, z, z], [[1000] * nf, [999] * nf, [1] * nf], [z, [1] + [0] * (nf - 1), z]]

    def observe(self, case):
        from fim.slivers.capacities_labels import Capacities, FreeCapacity
        fs = self.fields()

        def mk(vals):
            return Capacities(**dict(zip(fs, vals)))

        def vals(c):
            return [c.__dict__[f] for f in fs]
        a, b, c = (mk(v) for v in case)

        def hist(l):            # an allocation history: acc = Capacities(); acc = acc + x for every x
            acc = Capacities()
            for x in l:
                acc = acc + x
            return acc

        def posf(x, names):
            try:
                return x.positive_fields(names)
            except KeyError:
                return None
        snap = [copy.deepcopy(x.__dict__) for x in (a, b, c)]
        try:
            free = FreeCapacity(total=a, allocated=b)
            try:
                pos = (a - b).positive_fields(fs)
            except KeyError:
                pos = None
            obs = [vals(a + b), vals(a - b), vals((a + b) - b), vals(b + a),
                   vals((a + b) + c), vals(a + (b + c)),
                   a > b, a < b, a == b, b == a, a == a,
                   (b - a).negative_fields(), (a - b).negative_fields(),
                   vals(free.free), vals(free.free + b),
                   (a - b).to_json(), str(a - b), a.to_json(), str(a),
                   pos, True,
                   str(free), vals(FreeCapacity(total=a, allocated=None).free),
                   [getattr(free, f) for f in fs],
                   vals(hist([a, b, c])), vals(hist([c, a, b])),
                   vals(FreeCapacity(total=hist([a, b, c]), allocated=hist([b, c])).free),
                   vals((a - b) + b), vals(a - a),
                   posf(a, fs[:2]), posf(a, fs[:1] + ['no_such_field']), posf(a, ['no_such_field'] + fs[:1]),
                   vals((a - b) + (a - b)), vals((a - b) + Capacities()), vals((a - b) - c), vals(Capacities() + (a - b))]
        except Exception as e:
            obs = {'err': type(e).__name__}
        mutated = [x.__dict__ for x in (a, b, c)] != snap
        # observations judged by the oracle only (not part of the Coq case): augmented assignment on an
        # aliased name must not modify the operand, and a copied / pickled value must behave like the original
        extra = {}
        try:
            import pickle
            a2, b2 = mk(case[0]), mk(case[1])
            x = a2
            x += b2
            y = mk(case[0])
            y0 = y
            y -= b2
            extra['iadd'] = [vals(x), vals(a2), x is a2]
            extra['isub'] = [vals(y), vals(y0), y is y0]
            a3 = mk(case[0])
            clones = {'deepcopy': copy.deepcopy(a3), 'copy': copy.copy(a3), 'pickle': pickle.loads(pickle.dumps(a3))}
            extra['clones'] = {}
            for nm, cl in clones.items():
                try:
                    extra['clones'][nm] = [vals(cl + b2), vals(b2 + cl), vals(cl - b2), vals(b2 - cl),
                                           cl > b2, cl < b2, b2 > cl, b2 < cl, cl == a3, a3 == cl,
                                           (cl - b2).negative_fields(), (b2 - cl).negative_fields()]
                except Exception as e:
                    extra['clones'][nm] = {'err': type(e).__name__ + ': ' + str(e)[:60]}
        except Exception as e:
            extra['err'] = type(e).__name__ + ': ' + str(e)[:80]
        return {'obs': obs, 'mutated': mutated, 'extra': extra}

    def to_coq(self, case, o):
        a, b, c = case
        zs = lambda l: clist([cZ(x) for x in l])
        return '((%s, %s, %s), %s)' % (zs(a), zs(b), zs(c), py_val(o['obs']))

    def oracle(self, case, o):
        """the laws of the property statement evaluated directly on implementation results"""
        if o['mutated']:
            return 'an operand was modified'
        ex = o.get('extra') or {}
        if 'err' in ex:
            return 'augmented assignment / copy of a capacity raised ' + ex['err']
        if ex:
            a_, b_ = case[0], case[1]
            if ex['iadd'][0] != [x + y for x, y in zip(a_, b_)] or ex['isub'][0] != [x - y for x, y in zip(a_, b_)]:
                return 'a += b / a -= b does not give a+b / a-b'
            if ex['iadd'][1] != a_ or ex['isub'][1] != a_ or ex['iadd'][2] or ex['isub'][2]:
                return "an operand was modified by augmented assignment ('x = a; x += b' changed a)"
            fs_ = self.fields()
            for nm, r in ex['clones'].items():
                if isinstance(r, dict):
                    return 'arithmetic on a %s of a capacity raised %s' % (nm, r['err'])
                add_, sub_, subr_ = [x + y for x, y in zip(a_, b_)], [x - y for x, y in zip(a_, b_)], [y - x for x, y in zip(a_, b_)]
                exp = [add_, add_, sub_, subr_,
                       all(x >= y for x, y in zip(a_, b_)), all(x <= y for x, y in zip(a_, b_)),
                       all(y >= x for x, y in zip(a_, b_)), all(y <= x for x, y in zip(a_, b_)), True, True,
                       [f for f, x in zip(fs_, sub_) if x < 0], [f for f, x in zip(fs_, subr_) if x < 0]]
                if r != exp:
                    return 'a %s of a capacity does not behave like the original (not field by field)' % nm
        obs = o['obs']
        if isinstance(obs, dict):
            return 'operation raised ' + obs['err']
        a, b, c = case
        (add, sub, addsub, addc, assoc1, assoc2, gt, lt, eq, eqs, eqr, negba, negab, free, freeplus,
         js, st, ja, sa, pos, _, fstr, fnone, fget, h1, h2, hfree, subadd, subself, pos2, posk1, posk2,
         negsum, negzero, negsub, zeroneg) = obs
        if addsub != a:
            return '(a+b)-b != a'
        if add != addc:
            return 'a+b != b+a'
        if add != [x + y for x, y in zip(a, b)] or sub != [x - y for x, y in zip(a, b)]:
            return 'not field by field'
        if assoc1 != assoc2:
            return '(a+b)+c != a+(b+c)'
        if free != sub or freeplus != a:
            return 'free + allocated != total'
        if lt != (negba == []):
            return 'a<b disagrees with negative_fields(b-a)'
        if gt != (negab == []):
            return 'a>b disagrees with negative_fields(a-b)'
        fs = self.fields()
        if negab != [f for f, x in zip(fs, sub) if x < 0]:
            return 'negative fields not reported by name'
        if not eqr or eq != eqs or eq != (a == b):
            return 'equality not reflexive/symmetric/exact'
        if negsum != [2 * x for x in sub] or negzero != sub or zeroneg != sub or negsub != [x - z for x, z in zip(sub, c)]:
            return 'arithmetic on a negative result is not field by field'
        if subadd != a or any(subself):
            return '(a-b)+b != a or a-a != 0'
        if fnone != a:
            return 'FreeCapacity(total, allocated=None).free != total'
        if fget != sub:
            return 'FreeCapacity.<field> is not total.<field> - allocated.<field>'
        tot = [x + y + z for x, y, z in zip(a, b, c)]
        if h1 != tot or h2 != tot:
            return 'an allocation history does not add up field by field / depends on the order'
        if hfree != a:
            return 'free + allocated != total after a history of allocations'
        for f, fr, to in zip(self.fields(), sub, a):
            shown = ('%s: %s/%s ' % (f, format(fr, ','), format(to, ','))) in fstr
            if shown != (fr != 0 or to != 0):
                return 'FreeCapacity printer drops or invents a field: ' + fstr
        if pos2 != all(x > 0 for x in a[:2]) or posk2 is not None or posk1 != (None if a[0] > 0 else False):
            return 'positive_fields does not report exactly the named fields'
        import json as _j
        if any(x != 0 for x in sub):
            d = _j.loads(js)
            if d != {f: x for f, x in zip(fs, sub) if x != 0}:
                return 'negative result not representable: ' + js
            for f, x in zip(fs, sub):
                if x != 0 and ('%s: %s ' % (f, format(x, ','))) not in st:
                    return 'negative result not printable: ' + st
        return None

    def key(self, case, o):
        a, b, c = case
        if sum(1 for x in a if x) >= 2 and sum(1 for x in b if x) >= 2:
            return stable_hash(case)
        return None

    def histogram(self, cases, obs):
        h = {'equal_operands': 0, 'a_fits_b': 0, 'negative_result': 0, 'huge': 0}
        for c, o in zip(cases, obs):
            a, b, _ = c
            h['equal_operands'] += a == b
            h['a_fits_b'] += all(x <= y for x, y in zip(a, b))
            h['negative_result'] += any(x < y for x, y in zip(a, b))
            h['huge'] += any(x > 2 ** 62 for x in a + b)
        return h

    def shrink(self, case, failing):
        case = [list(x) for x in case]
        for j in range(3):
            for i in range(len(case[j])):
                for v in (0, 1):
                    if case[j][i] != v:
                        old = case[j][i]
                        case[j][i] = v
                        if failing(case):
                            break
                        case[j][i] = old
        return case


class C15(Check):
    pid = 'C15'
    translators = ['gen_caps']
    model_targets = ['Model/Caps.vo']
    streams = [Triples()]
    trusted_base = [
        'Coq 8.16.1 kernel (coqc), vm_compute for the correspondence evaluation; no native_compute',
        'Print Assumptions of every C15 theorem: Closed under the global context (no axioms)',
        'translator/gen_caps.py + translator/pyast.py (Python ast -> Gen/CapsGen.v), fail-closed',
        'harness/c15.py + harness/common.py (case generation, recording of implementation results, cases.v writer)',
        'modelled not verified: Python int arithmetic (= Z), dict insertion order, json.dumps of a flat int dict, format(v, ",")',
    ]
    assumptions = ['capacity fields hold Python ints (None-valued fields are outside the quantified domain)',
                   'both operands carry the same field list (objects built by the current constructor)']


if __name__ == '__main__':
    sys.exit(main(C15()))

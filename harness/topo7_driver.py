"""C07 driver: runs a history of topology-building calls on the REAL API (ExperimentTopology /
SubstrateTopology on the in-memory NetworkX backend) and records, after EVERY call, the outcome
(ok / exception class / noref), the ids the library drew from uuid4 during the call, the canonical
snapshot of the underlying graph (storage.extract_graph) and the contents of the read-only views.

A case is  {'flavour': 'exp'|'sub', 'ops': [[tag, kind, arg...], ...]} (JSON-able).
Elements that the API takes as *handles* are referenced by node id and resolved through the
public views right before the call (fresh handles); calls that take names get names.
uuid4 is replaced (in this process only) by a deterministic source: the k-th draw during the op
with tag t is 'g<t>x<k>' -- stable when ops are deleted by the shrinker.
"""
import uuid, logging

_STATE = {'tag': 0, 'k': 0, 'drawn': None}


class _U:
    def __init__(self, s):
        self.s = s
        self.hex = s

    def __str__(self):
        return self.s


def _uuid4():
    s = 'g%dx%d' % (_STATE['tag'], _STATE['k'])
    _STATE['k'] += 1
    if _STATE['drawn'] is not None:
        _STATE['drawn'].append(s)
    return _U(s)


_REAL_UUID4 = uuid.uuid4


class patched_uuid:
    def __enter__(self):
        uuid.uuid4 = _uuid4

    def __exit__(self, *a):
        uuid.uuid4 = _REAL_UUID4


def _imports():
    import fim.user as f
    from fim.slivers.capacities_labels import Labels, Capacities
    return f, Labels, Capacities


CLASSES = ['NetworkNode', 'Component', 'NetworkService', 'ConnectionPoint', 'Link', 'CompositeNode']


def snapshot(topo):
    """canonical projection of the property graph: nodes [id, class, type|None, name|None, Labels present]
    sorted by id, edges [a, b, rel] (a <= b) sorted; ids are NodeID property values."""
    gm = topo.graph_model
    g = gm.storage.extract_graph(gm.graph_id)
    if g is None:
        return {'nodes': [], 'edges': []}
    nodes = []
    for n, d in g.nodes(data=True):
        nodes.append([d.get('NodeID'), d.get('Class'), d.get('Type'), d.get('Name'), d.get('Labels') is not None])
    nodes.sort(key=lambda x: (str(x[0]), str(x[1])))
    edges = []
    for a, b, d in g.edges(data=True):
        ia, ib = g.nodes[a].get('NodeID'), g.nodes[b].get('NodeID')
        if str(ib) < str(ia):
            ia, ib = ib, ia
        edges.append([ia, ib, d.get('Class')])
    edges.sort(key=lambda e: (str(e[0]), str(e[1]), str(e[2])))
    return {'nodes': nodes, 'edges': edges}


def views(topo):
    """ids listed by the read-only views (as multisets: sorted lists)"""
    out = {}
    try:
        out['nodes'] = sorted(v.node_id for v in topo.nodes.values())
        fac = topo.facilities
        out['facilities'] = sorted(v.node_id for v in fac.values()) if fac is not None else []
        out['links'] = sorted(v.node_id for v in topo.links.values())
        out['network_services'] = sorted(v.node_id for v in topo.network_services.values())
        out['interface_list'] = sorted(v.node_id for v in topo.interface_list)
        # element level containment views
        per = []
        for n in list(topo.nodes.values()) + list(fac.values() if fac is not None else []):
            comps = sorted(c.node_id for c in n.components.values())
            nss = sorted(s.node_id for s in n.network_services.values())
            ifs = sorted(i.node_id for i in n.interface_list)
            per.append([n.node_id, comps, nss, ifs])
        per.sort()
        out['per_node'] = per
    except Exception as e:     # a view that raises is itself an observation
        out['error'] = type(e).__name__
    return out


class Resolver:
    """fresh handles obtained through the public views, by node id"""

    def __init__(self, topo):
        self.t = topo

    def all_nodes(self):
        fac = self.t.facilities
        return list(self.t.nodes.values()) + (list(fac.values()) if fac is not None else [])

    def node(self, nid):
        for n in self.all_nodes():
            if n.node_id == nid:
                return n
        return None

    def comp(self, cid):
        for n in self.all_nodes():
            for c in n.components.values():
                if c.node_id == cid:
                    return c, n
        return None

    def ns(self, sid):
        for s in self.t.network_services.values():
            if s.node_id == sid:
                return s
        for n in self.all_nodes():
            for s in n.network_services.values():
                if s.node_id == sid:
                    return s
            for c in n.components.values():
                for s in c.network_services.values():
                    if s.node_id == sid:
                        return s
        return None

    def link(self, lid):
        for l in self.t.links.values():
            if l.node_id == lid:
                return l
        return None

    def iface(self, iid):
        seen = []
        for n in self.all_nodes():
            seen.extend(n.interface_list)
        for i in list(seen):
            if i.node_id == iid:
                return i
        for i in list(seen):
            for ch in i.interface_list:
                if ch.node_id == iid:
                    return ch
        # service-owned interfaces (ServicePorts)
        for s in self.t.network_services.values():
            for i in s.interface_list:
                if i.node_id == iid:
                    return i
        return None

    # When a view does not show an element that the model holds (name-keyed views drop an element whose name
    # collides with another one's, see the recorded finding on network_services), the handle is built from the
    # graph directly -- what the views themselves do for the elements they show.
    def _direct(self, nid, cls):
        try:
            labels, props = self.t.graph_model.get_node_properties(node_id=nid)
        except Exception:
            return None
        if cls not in labels or props.get('Name') is None:
            return None
        from fim.user.node import Node
        from fim.user.component import Component
        from fim.user.network_service import NetworkService
        from fim.user.interface import Interface
        from fim.user.link import Link
        ctor = {'NetworkNode': Node, 'Component': Component, 'NetworkService': NetworkService,
                'ConnectionPoint': Interface, 'Link': Link}[cls]
        return ctor(name=props['Name'], node_id=nid, topo=self.t)

    def any_elem(self, eid):
        """a handle of whatever class the element with this id has (interfaces first)"""
        for kind in ('iface', 'node', 'comp', 'ns', 'link'):
            h = self._elem([kind, eid])
            if h is not None:
                return h
        for kind, cls in (('iface', 'ConnectionPoint'), ('node', 'NetworkNode'), ('comp', 'Component'),
                          ('ns', 'NetworkService'), ('link', 'Link')):
            try:
                h = self._direct(eid, cls)
            except Exception:
                h = None
            if h is not None:
                return h
        return None

    def elem(self, ref):
        h = self._elem(ref)
        if h is None:
            h = self._direct(ref[1], {'node': 'NetworkNode', 'comp': 'Component', 'ns': 'NetworkService',
                                      'link': 'Link', 'iface': 'ConnectionPoint'}[ref[0]])
        return h

    def _elem(self, ref):
        kind, eid = ref
        if kind == 'node':
            return self.node(eid)
        if kind == 'comp':
            r = self.comp(eid)
            return r[0] if r else None
        if kind == 'ns':
            return self.ns(eid)
        if kind == 'link':
            return self.link(eid)
        if kind == 'iface':
            return self.iface(eid)
        raise ValueError(ref)


class NoRef(Exception):
    pass


def _need(x):
    if x is None:
        raise NoRef()
    return x


def prop_value(f, Labels, Capacities, pname, code):
    if pname == 'name':
        return code
    if pname == 'site':
        return code
    if pname == 'capacities':
        return Capacities(core=int(code))
    if pname == 'labels':
        return Labels(vlan=str(code))
    if pname == 'details':
        return code
    if pname == 'type_node':
        return f.NodeType[code]
    raise ValueError(pname)


def apply_op(topo, flavour, op):
    """perform one API call; raises whatever the API raises, NoRef if a handle cannot be obtained"""
    f, Labels, Capacities = _imports()
    R = Resolver(topo)
    kind = op[1]
    a = op[2:]
    if kind == 'add_node':
        name, nid, site, ntype = a
        topo.add_node(name=name, node_id=nid, site=site, ntype=f.NodeType[ntype])
    elif kind == 'remove_node':
        topo.remove_node(name=a[0])
    elif kind == 'add_component':
        node_id, cname, cid, ctype, model, ns_id, if_ids = a
        n = _need(R.elem(['node', node_id]))
        kw = {}
        if ns_id is not None or if_ids is not None:
            kw = dict(network_service_node_id=ns_id, interface_node_ids=if_ids,
                      interface_labels=[Labels(mac='aa:bb:cc:dd:ee:%02x' % k) for k in range(len(if_ids or []))]
                      if if_ids is not None else None)
        n.add_component(name=cname, node_id=cid, ctype=f.ComponentType[ctype], model=model, **kw)
    elif kind == 'add_storage':
        node_id, cname, cid = a
        n = _need(R.elem(['node', node_id]))
        n.add_storage(name=cname, node_id=cid, labels=Labels(local_name='vol'))
    elif kind == 'remove_component':
        node_id, cname = a
        n = _need(R.elem(['node', node_id]))
        n.remove_component(name=cname)
    elif kind == 'add_facility':
        name, nid, site, ifnames = a
        if ifnames is None:
            topo.add_facility(name=name, node_id=nid, site=site, labels=Labels(vlan='10'),
                              capacities=Capacities(bw=10))
        else:
            topo.add_facility(name=name, node_id=nid, site=site,
                              interfaces=[(x, Labels(vlan=str(100 + k)), Capacities(bw=10))
                                          for k, x in enumerate(ifnames)])
    elif kind == 'remove_facility':
        topo.remove_facility(name=a[0])
    elif kind == 'add_switch':
        name, nid, site, nports = a
        topo.add_switch(name=name, node_id=nid, site=site, nports=nports)
    elif kind == 'remove_switch':
        topo.remove_switch(name=a[0])
    elif kind == 'add_ns':
        name, sid, nstype, if_ids = a
        ifs = [_need(R.elem(['iface', i])) for i in if_ids]
        h = topo.add_network_service(name=name, node_id=sid, nstype=f.ServiceType[nstype], interfaces=ifs)
        _STATE.setdefault('kept', {})[h.node_id] = h          # a long-lived handle (see stale_add_iface)
    elif kind == 'stale_add_iface':
        sid, name, iid, itype = a
        h = _STATE.get('kept', {}).get(sid)
        if h is None:
            raise NoRef()
        h.add_interface(name=name, node_id=iid, itype=f.InterfaceType[itype])
    elif kind == 'add_pm':
        name, sid, from_name, to_id = a
        to = _need(R.elem(['iface', to_id]))
        topo.add_port_mirror_service(name=name, node_id=sid, from_interface_name=from_name, to_interface=to)
    elif kind == 'remove_ns':
        topo.remove_network_service(name=a[0])
    elif kind == 'node_add_ns':
        node_id, name, sid, nstype = a
        n = _need(R.elem(['node', node_id]))
        h = n.add_network_service(name=name, node_id=sid, nstype=f.ServiceType[nstype])
        _STATE.setdefault('kept', {})[h.node_id] = h
    elif kind == 'node_remove_ns':
        node_id, name = a
        n = _need(R.elem(['node', node_id]))
        n.remove_network_service(name=name)
    elif kind == 'add_link':
        name, lid, ltype, if_ids = a
        # handles of whatever class the ids have: add_link is also handed elements that are not interfaces
        ifs = [_need(R.any_elem(i)) for i in if_ids]
        topo.add_link(name=name, node_id=lid, ltype=f.LinkType[ltype], interfaces=ifs)
    elif kind == 'remove_link':
        topo.remove_link(name=a[0])
    elif kind == 'connect':
        sid, iid = a
        s = _need(R.elem(['ns', sid]))
        i = _need(R.elem(['iface', iid]))
        s.connect_interface(interface=i)
    elif kind == 'disconnect':
        sid, iid = a
        s = _need(R.elem(['ns', sid]))
        i = _need(R.elem(['iface', iid]))
        s.disconnect_interface(interface=i)
    elif kind == 'peer':
        s1 = _need(R.elem(['ns', a[0]]))
        s2 = _need(R.elem(['ns', a[1]]))
        s1.peer(s2)
    elif kind == 'unpeer':
        s1 = _need(R.elem(['ns', a[0]]))
        s2 = _need(R.elem(['ns', a[1]]))
        s1.unpeer(s2)
    elif kind == 'add_sub':
        iid, name, subid, vlan = a
        i = _need(R.elem(['iface', iid]))
        kw = {}
        if vlan is not None:
            kw['labels'] = Labels(vlan=str(vlan))
        i.add_child_interface(name=name, node_id=subid, **kw)
    elif kind == 'remove_sub':
        iid, name = a
        i = _need(R.elem(['iface', iid]))
        i.remove_child_interface(name=name)
    elif kind == 'rename':
        ref, new = a
        e = _need(R.elem(ref))
        e.rename(new)
    elif kind == 'set_prop':
        ref, pname, code = a
        e = _need(R.elem(ref))
        if pname == 'names':
            e.set_properties(name=code)          # the plural entry point
        else:
            e.set_property(pname if pname != 'type_node' else 'type', prop_value(f, Labels, Capacities, pname, code))
    elif kind == 'unset_prop':
        ref, pname = a
        e = _need(R.elem(ref))
        e.unset_property(pname)
    else:
        raise ValueError('unknown op kind %r' % (kind,))


def new_topology(flavour, store=None):
    """store = None: the default in-memory store (one shared networkx graph); 'disjoint': the per-graph in-memory store
    Topology.__init__ also accepts (NetworkXGraphImporterDisjoint) -- same API, same model"""
    f, _, _ = _imports()
    from fim.graph.networkx_property_graph import NetworkXGraphImporter
    NetworkXGraphImporter().delete_all_graphs()
    _STATE['tag'], _STATE['k'], _STATE['drawn'] = 0, 0, None
    _STATE['kept'] = {}
    if store == 'disjoint':
        from fim.graph.networkx_property_graph_disjoint import NetworkXGraphImporterDisjoint
        imp = NetworkXGraphImporterDisjoint()
        imp.delete_all_graphs()
        return f.ExperimentTopology(importer=imp) if flavour == 'exp' else f.SubstrateTopology(importer=imp)
    return f.ExperimentTopology() if flavour == 'exp' else f.SubstrateTopology()


def order_hint(topo, op):
    """the order in which the implementation is about to walk the interface list of the element a removal call
    names (Python set iteration order -- not determined by the snapshot): the same expression the code evaluates,
    evaluated on the same state right before the call"""
    def flat(ifl):
        # Topology._disconnect_from_services walks each interface followed by its sub-interfaces
        return [ii.node_id for i in ifl for ii in (i,) + tuple(i.interface_list)]
    try:
        kind, a = op[1], op[2:]
        if kind in ('remove_node', 'remove_switch'):
            return flat(topo.nodes[a[0]].interface_list)
        if kind == 'remove_facility':
            return flat(topo.facilities[a[0]].interface_list)
        if kind == 'remove_component':
            n = Resolver(topo).elem(['node', a[0]])
            return flat(n.components[a[1]].interface_list)
        if kind == 'remove_ns':
            return flat(topo.network_services[a[0]].interface_list)
        if kind == 'node_remove_ns':
            n = Resolver(topo).elem(['node', a[0]])
            return flat(n.network_services[a[1]].interface_list)
    except Exception:
        pass
    return []


def step(topo, flavour, op, want_views=True):
    _STATE['tag'], _STATE['k'] = 200000 + op[0], 0
    hint = order_hint(topo, op)
    _STATE['tag'], _STATE['k'] = op[0], 0
    _STATE['drawn'] = drawn = []
    try:
        apply_op(topo, flavour, op)
        out = 'ok'
    except NoRef:
        out = 'noref'
    except Exception as e:
        out = type(e).__name__
    _STATE['drawn'] = None
    _STATE['tag'], _STATE['k'] = 100000 + op[0], 0     # draws made by the views (none expected) stay apart
    st = {'out': out, 'drawn': drawn, 'hint': hint, 'snap': snapshot(topo)}
    if want_views:
        st['views'] = views(topo)
    return st


def run_history(case, want_views=True):
    logging.disable(logging.CRITICAL)
    with patched_uuid():
        topo = new_topology(case['flavour'], case.get('store'))
        steps = []
        for op in case['ops']:
            steps.append(step(topo, case['flavour'], op, want_views))
        return steps

"""Shared machinery of the /verif checks (see DESIGN.md section 2).

A check = (1) regenerate coq/Gen/*.v from the repository's current source (translator),
(2) build the Coq cone of Properties/<id>.v (full .vo build) and read Print Assumptions,
(3) correspondence: run the implementation on generated cases, write the cases together with
the implementation's observations as Coq terms, let Coq evaluate the model (vm_compute) and
report the indices that disagree, (4) decide / search for a concrete failing input / write the
replay, (5) write evidence/<id>.json.
"""
import os, sys, re, json, time, subprocess, hashlib, random, fcntl, shutil, glob, traceback

VERIF = os.path.dirname(os.path.dirname(os.path.abspath(__file__)))
REPO = os.path.realpath(os.environ.get('VERIF_REPO', '/repo'))
COQ = os.path.join(VERIF, 'coq')
if REPO != '/repo':
    # a check run against a scratch copy of the repository (mutant self-tests) must not disturb the
    # shared build tree: regenerated Gen/*.v would differ.  Work in a private copy, removed at exit.
    import atexit
    _priv = os.environ.get('VERIF_COQ') or '/tmp/verif_coq_%d' % os.getpid()
    if not os.path.isdir(_priv):
        subprocess.run(['rsync', '-a', '--exclude', 'Cases/*', '--exclude', 'Wip', '--exclude', '.lock',
                        os.path.join(VERIF, 'coq') + '/', _priv + '/'], check=True)
        if not os.environ.get('VERIF_COQ'):
            atexit.register(lambda: shutil.rmtree(_priv, ignore_errors=True))
    COQ = _priv
PY = '/venv/bin/python'
NPROC = int(os.environ.get('VERIF_JOBS', '16'))
GUARD = 'FABRIC_FIM_VERIF'

ALLOWED_AXIOMS = set()   # none expected; stdlib axioms would be named here and in DESIGN.md section 8

FORBIDDEN = r'\b(Admitted|admit|Axiom|Axioms|Parameter|Parameters|Conjecture|Conjectures|Admit Obligations|bypass_check|native_compute)\b|Unset Guard|Unset Positivity|Unset Universe|type-in-type|impredicative-set'


def log(*a):
    print(*a, file=sys.stderr, flush=True)


# ----------------------------------------------------------------------------------------------
# Coq term printers (python value -> Coq text)
# ----------------------------------------------------------------------------------------------

def cN(n):
    assert isinstance(n, int) and n >= 0, n
    return '%d%%N' % n


def cZ(z):
    assert isinstance(z, int) and not isinstance(z, bool), z
    return '(%d)%%Z' % z


def cnat(n):
    assert 0 <= n < 5000, n
    return '%d%%nat' % n


def cbool(b):
    return 'true' if b else 'false'


def cstr(s):
    """python str -> list N of code points"""
    assert isinstance(s, str), s
    return '[' + ';'.join('%d' % ord(c) for c in s) + ']%N'


def clist(items):
    return '[' + '; '.join(items) + ']'


def copt(x, f):
    return 'None' if x is None else '(Some %s)' % f(x)


def cpair(a, b):
    return '(%s, %s)' % (a, b)


# ----------------------------------------------------------------------------------------------
# locking / building
# ----------------------------------------------------------------------------------------------

class Lock:
    def __init__(self, name='.lock'):
        self.path = os.path.join(COQ, name)

    def __enter__(self):
        self.f = open(self.path, 'w')
        fcntl.flock(self.f, fcntl.LOCK_EX)
        return self

    def __exit__(self, *a):
        fcntl.flock(self.f, fcntl.LOCK_UN)
        self.f.close()


def write_if_changed(path, text):
    old = None
    if os.path.exists(path):
        with open(path) as f:
            old = f.read()
    if old != text:
        os.makedirs(os.path.dirname(path), exist_ok=True)
        tmp = path + '.tmp%d' % os.getpid()
        with open(tmp, 'w') as f:
            f.write(text)
        os.replace(tmp, path)
        return True
    return False


def regenerate(modules, repo=None):
    """modules: list of translator module names (translator/<name>.py with generate(repo)->{relpath:text}).
    Returns dict relpath -> changed?"""
    repo = repo or REPO
    sys.path.insert(0, os.path.join(VERIF, 'translator'))
    changed = {}
    import importlib
    for m in modules:
        mod = importlib.import_module(m)
        try:
            out = mod.generate(repo)
        except Exception as e:   # fail closed: emit a file that defines gen_ok := false
            log('translator %s failed: %r' % (m, e))
            traceback.print_exc()
            out = mod.fail_closed(repr(e))
        for rel, text in out.items():
            changed[rel] = write_if_changed(os.path.join(COQ, rel), text)
    return changed


def coq_sources():
    out = []
    for d in ('Base', 'Gen', 'Model', 'Proofs', 'Properties'):
        out += sorted(glob.glob(os.path.join(COQ, d, '*.v')))
    return [os.path.relpath(p, COQ) for p in out]


def ensure_makefile():
    files = coq_sources()
    proj = '-Q . FIM\n-arg -w -arg -all\n' + '\n'.join(files) + '\n'
    ch = write_if_changed(os.path.join(COQ, '_CoqProject'), proj)
    if ch or not os.path.exists(os.path.join(COQ, 'Makefile')):
        subprocess.run(['coq_makefile', '-f', '_CoqProject', '-o', 'Makefile'], cwd=COQ, check=True,
                       stdout=subprocess.DEVNULL, stderr=subprocess.DEVNULL)


def grep_forbidden():
    """the development must not contain Admitted/admit/Axiom/... (comments are stripped first)"""
    bad = []
    for rel in coq_sources():
        with open(os.path.join(COQ, rel)) as f:
            txt = f.read()
        txt2 = strip_coq_comments(txt)
        for m in re.finditer(FORBIDDEN, txt2):
            bad.append('%s: %s' % (rel, m.group(0)))
        # Variable/Hypothesis outside a Section
        depth = 0
        for line in txt2.split('\n'):
            s = line.strip()
            if re.match(r'(Section|Module)\s+\w+', s) and re.match(r'Section', s):
                depth += 1
            elif re.match(r'End\s+\w+\s*\.', s) and depth > 0:
                depth -= 1
            elif depth == 0 and re.match(r'(Variable|Variables|Hypothesis|Hypotheses|Context)\b', s):
                bad.append('%s: %s outside a Section' % (rel, s[:40]))
    return bad


def strip_coq_comments(txt):
    out = []
    depth = 0
    i = 0
    n = len(txt)
    instr = False
    while i < n:
        if not instr and txt.startswith('(*', i):
            depth += 1
            i += 2
            continue
        if not instr and depth > 0 and txt.startswith('*)', i):
            depth -= 1
            i += 2
            continue
        c = txt[i]
        if depth == 0:
            if c == '"':
                instr = not instr
            out.append(c)
        elif c == '\n':
            out.append(c)
        i += 1
    return ''.join(out)


def make(targets, timeout=1500):
    """make the given .vo targets (full build). Returns (ok, log)."""
    ensure_makefile()
    cmd = ['timeout', str(timeout), 'make', '-k', '-j%d' % NPROC] + targets
    p = subprocess.run(cmd, cwd=COQ, stdout=subprocess.PIPE, stderr=subprocess.STDOUT, text=True)
    return p.returncode == 0, p.stdout


def locate_error(mklog):
    """Find (file, line, enclosing lemma) of the first Coq error in a make log."""
    res = []
    for m in re.finditer(r'File "\./([^"]+)", line (\d+), characters [\d-]+:\s*\nError:?(.*?)(?=\n\S|\Z)', mklog, re.S):
        rel, line, msg = m.group(1), int(m.group(2)), m.group(3)
        name = None
        try:
            with open(os.path.join(COQ, rel)) as f:
                lines = f.read().split('\n')
            for i in range(min(line, len(lines)) - 1, -1, -1):
                mm = re.match(r'\s*(?:Local\s+|Global\s+)?(Lemma|Theorem|Corollary|Example|Fact|Remark|Proposition|Definition|Fixpoint)\s+([\w\']+)', lines[i])
                if mm:
                    name = mm.group(2)
                    break
        except OSError:
            pass
        res.append({'file': rel, 'line': line, 'in': name, 'error': ' '.join(msg.split())[:400]})
    return res


def compile_property_file(pid, timeout=600):
    """(Re)compile Properties/<pid>.v alone to capture Print Assumptions output.
    Returns dict(ok, theorems=[...], assumptions={thm: text}, log)"""
    rel = 'Properties/%s.v' % pid
    src = open(os.path.join(COQ, rel)).read()
    thms = re.findall(r'^\s*Theorem\s+([\w\']+)', strip_coq_comments(src), re.M)
    p = subprocess.run(['timeout', str(timeout), 'coqc', '-Q', '.', 'FIM', '-w', '-all', rel], cwd=COQ,
                       stdout=subprocess.PIPE, stderr=subprocess.STDOUT, text=True)
    out = p.stdout
    # Print Assumptions output: "Closed under the global context" or "Axioms:\n name : type ..."
    closed = out.count('Closed under the global context')
    axioms = []
    for m in re.finditer(r'Axioms:\n((?:.+\n?)+?)(?=\n\S|\Z)', out):
        for l in m.group(1).split('\n'):
            mm = re.match(r'^([\w\.\']+)\s*:', l)
            if mm:
                axioms.append(mm.group(1))
    nprint = len(re.findall(r'Print\s+Assumptions', strip_coq_comments(src)))
    return {'ok': p.returncode == 0, 'theorems': thms, 'closed': closed, 'axioms': sorted(set(axioms)),
            'n_print_assumptions': nprint, 'log': out}


# ----------------------------------------------------------------------------------------------
# correspondence: cases.v evaluated inside Coq
# ----------------------------------------------------------------------------------------------

def run_cases(pid, stream, header, case_terms, check_fn, case_type, shard=400, timeout=900):
    """Write shards  Cases/<pid>_<stream>_<k>.v :
         <header>
         Definition cases : list <case_type> := [ ... ].
         Eval vm_compute in (bad_indices <check_fn> cases).
       check_fn : case_type -> bool (true = model agrees with the recorded implementation observation).
       Returns (bad_global_indices, errors)."""
    d = os.path.join(COQ, 'Cases')
    os.makedirs(d, exist_ok=True)
    tag = '%s_%s_%d' % (pid, stream, os.getpid())
    files = []
    for k in range(0, len(case_terms), shard):
        chunk = case_terms[k:k + shard]
        name = '%s_%d' % (tag, k // shard)
        body = header + '\nFrom FIM Require Import Base.Corr.\n'
        body += 'Definition cases : list (%s) := [\n  ' % case_type + ';\n  '.join(chunk) + '\n].\n'
        body += 'Eval vm_compute in (bad_indices (%s) cases).\n' % check_fn
        with open(os.path.join(d, name + '.v'), 'w') as f:
            f.write(body)
        files.append((name, k))
    procs = []
    bad, errors = [], []
    pending = list(files)
    running = []

    def launch(name, base):
        p = subprocess.Popen(['timeout', str(timeout), 'coqc', '-Q', '.', 'FIM', '-w', '-all', 'Cases/%s.v' % name],
                             cwd=COQ, stdout=subprocess.PIPE, stderr=subprocess.STDOUT, text=True)
        return (p, name, base)
    while pending or running:
        while pending and len(running) < NPROC:
            running.append(launch(*pending.pop(0)))
        p, name, base = running.pop(0)
        out, _ = p.communicate()
        m = re.search(r'=\s*(\[.*?\]|nil)\s*:\s*list', out, re.S)
        if p.returncode != 0 or not m:
            errors.append({'file': name, 'output': out[-1500:]})
        else:
            nums = re.findall(r'\d+', m.group(1))
            bad += [base + int(x) for x in nums]
        for ext in ('.v', '.vo', '.vok', '.vos', '.glob'):
            try:
                os.remove(os.path.join(d, name + ext))
            except OSError:
                pass
        try:
            os.remove(os.path.join(d, '.' + name + '.aux'))
        except OSError:
            pass
    return sorted(bad), errors


# ----------------------------------------------------------------------------------------------
# known findings, replays, evidence
# ----------------------------------------------------------------------------------------------

def load_known():
    p = os.path.join(VERIF, 'known_findings.json')
    out = {'findings': [], 'fixed': []}
    if os.path.exists(p):
        with open(p) as f:
            d = json.load(f)
        out['findings'] += d.get('findings', [])
        out['fixed'] += d.get('fixed', [])
    # per-property fragments used while a check is being developed; merged into the single file on integration
    for q in sorted(glob.glob(os.path.join(VERIF, 'known_findings.d', '*.json'))):
        with open(q) as f:
            d = json.load(f)
        out['findings'] += d.get('findings', [])
        out['fixed'] += d.get('fixed', [])
    return out


def known_for(pid):
    return [k for k in load_known().get('findings', []) if k['property'] == pid]


def write_replay(pid, name, obj):
    d = os.path.join(VERIF, 'replays', pid)
    os.makedirs(d, exist_ok=True)
    path = os.path.join(d, name + '.json')
    with open(path, 'w') as f:
        json.dump(obj, f, indent=1, default=repr, sort_keys=True)
    return path


def write_evidence(pid, tier, seed, coverage, assumptions, wall_s, violations, level='proof'):
    os.makedirs(os.path.join(VERIF, 'evidence'), exist_ok=True)
    ev = {'property_id': pid, 'tier': tier, 'seed': seed, 'level': level, 'coverage': coverage,
          'assumptions': assumptions, 'wall_s': round(wall_s, 2), 'violations': violations}
    path = os.path.join(VERIF, 'evidence', pid + '.json')
    if REPO != '/repo':     # scratch-copy runs (mutant self-tests) never overwrite the evidence of the real tree
        os.makedirs(os.path.join(VERIF, 'replays', '_scratch_evidence'), exist_ok=True)
        path = os.path.join(VERIF, 'replays', '_scratch_evidence', pid + '.json')
    tmp = path + '.tmp'
    with open(tmp, 'w') as f:
        json.dump(ev, f, indent=1, default=repr)
    os.replace(tmp, path)
    return path


def setup_repo_path():
    """make the implementation importable from REPO (never from site-packages)"""
    if sys.path[0] != REPO:
        sys.path.insert(0, REPO)
    os.environ[GUARD] = '1'
    import logging
    logging.disable(logging.CRITICAL)


def stable_hash(obj):
    return hashlib.sha1(json.dumps(obj, sort_keys=True, default=repr).encode()).hexdigest()[:16]


# ----------------------------------------------------------------------------------------------
# the generic driver
# ----------------------------------------------------------------------------------------------

class Stream:
    """One correspondence stream of a property.

    name        : short id
    header      : Coq text (Require Imports) placed at the top of each cases file
    case_type   : Coq type of one case
    check_fn    : Coq function case_type -> bool (model agrees with recorded observation)
    gen(rng, tier)      -> list of python cases
    observe(case)       -> observation (runs the implementation; must catch exceptions itself)
    to_coq(case, obs)   -> Coq term of case_type
    oracle(case, obs)   -> None | str   (property restated over implementation observables)
    key(case, obs)      -> hashable | None  (None = trivial case for distinct_nontrivial)
    describe(case, obs) -> json-able sample
    """
    name = 'main'
    header = ''
    case_type = ''
    check_fn = ''
    shard = 400
    rule = ''

    def gen(self, rng, tier):
        raise NotImplementedError

    def corpus(self):
        return []

    def observe(self, case):
        raise NotImplementedError

    def to_coq(self, case, obs):
        raise NotImplementedError

    def oracle(self, case, obs):
        return None

    def key(self, case, obs):
        return stable_hash([case, obs])

    def describe(self, case, obs):
        return {'case': case, 'impl': obs}

    def known_signature(self, case, obs, why):
        """text matched against known_findings.json 'signature' regexes"""
        return why or ''

    def shrink(self, case, failing):
        """failing(case)->bool. default: no shrinking"""
        return case


class Check:
    pid = None
    translators = []            # translator module names
    model_targets = []          # .vo needed by the cases files (must not depend on Proofs/)
    streams = []
    trusted_base = []
    assumptions = []
    design_ref = ''
    # obligations that are about generated tables: name -> explanation (for messages)

    def extra_static(self, ctx):
        """hook: additional static obligations evaluated in python over translator output
        (returns list of dict(name, ok, detail)); default none"""
        return []

    def refuted_witnesses(self):
        """list of (name, callable) replaying ..._refuted witnesses on the implementation; each callable
        returns (still_fails: bool, description)"""
        return []


def main(check: Check, argv=None):
    import argparse
    ap = argparse.ArgumentParser()
    ap.add_argument('--tier', default=os.environ.get('VERIF_TIER', 'quick'))
    ap.add_argument('--replay', default=None)
    ap.add_argument('--no-build', action='store_true')
    args = ap.parse_args(argv)
    tier = args.tier if args.tier in ('quick', 'thorough') else 'quick'
    seed = int(os.environ.get('VERIF_SEED', '0') or 0)
    t0 = time.time()
    pid = check.pid
    setup_repo_path()
    if args.replay:
        return replay(check, args.replay)
    rng = random.Random(seed * 1000003 + int(pid[1:]))

    broken = []      # list of dicts: what no longer checks
    notes = []
    # 1. regenerate + build
    with Lock():
        changed = regenerate(check.translators)
        bad = grep_forbidden()
        if bad:
            broken.append({'kind': 'forbidden-construct', 'detail': bad[:5]})
        ok_m, log_m = make(check.model_targets + ['Base/Corr.vo'])
        if not ok_m:
            broken.append({'kind': 'model-build', 'detail': locate_error(log_m) or log_m[-800:]})
        ok_p, log_p = make(['Properties/%s.vo' % pid])
        if not ok_p:
            errs = locate_error(log_p)
            broken.append({'kind': 'proof-obligation', 'detail': errs or log_p[-800:]})
        prop = compile_property_file(pid) if ok_p else {'ok': False, 'theorems': [], 'closed': 0, 'axioms': [],
                                                          'n_print_assumptions': 0, 'log': ''}
    if ok_p:
        if not prop['ok']:
            broken.append({'kind': 'proof-obligation', 'detail': prop['log'][-800:]})
        extra_ax = [a for a in prop['axioms'] if a not in ALLOWED_AXIOMS]
        if extra_ax:
            broken.append({'kind': 'axioms', 'detail': extra_ax})
        if prop['closed'] + (1 if prop['axioms'] else 0) < 1 or prop['n_print_assumptions'] < len(prop['theorems']):
            broken.append({'kind': 'print-assumptions-missing', 'detail': '%d theorems, %d Print Assumptions' % (
                len(prop['theorems']), prop['n_print_assumptions'])})
    static = check.extra_static({'repo': REPO})
    for s in static:
        if not s['ok']:
            broken.append({'kind': 'static-obligation', 'detail': s})

    # 2. correspondence
    cov = {'streams': {}}
    total_eval = 0
    distinct = set()
    samples = []
    disagreements = []   # (stream, case, obs)
    oracle_fail = []     # (stream, case, obs, why)
    validated = 0
    for st in check.streams:
        cases = list(st.corpus()) + list(st.gen(rng, tier))
        obs = []
        for c in cases:
            obs.append(st.observe(c))
        terms = [st.to_coq(c, o) for c, o in zip(cases, obs)]
        if ok_m:
            badidx, errs = run_cases(pid, st.name, st.header, terms, st.check_fn, st.case_type, shard=st.shard)
        else:
            badidx, errs = [], []
        if errs:
            broken.append({'kind': 'cases-eval', 'stream': st.name, 'detail': errs[:2]})
        for i in badidx:
            disagreements.append((st, cases[i], obs[i]))
        for c, o in zip(cases, obs):
            why = st.oracle(c, o)
            if why:
                oracle_fail.append((st, c, o, why))
            k = st.key(c, o)
            if k is not None:
                distinct.add((st.name, k))
        total_eval += len(cases)
        validated += len(cases) - len(badidx) if ok_m and not errs else 0
        hist = st.histogram(cases, obs) if hasattr(st, 'histogram') else {}
        cov['streams'][st.name] = {'cases': len(cases), 'disagreements': len(badidx), 'rule': st.rule,
                                   'distribution': hist}
        for c, o in list(zip(cases, obs))[:2]:
            samples.append({'stream': st.name, **st.describe(c, o)})

    # 3. refuted-witness replays (known findings on the unchanged tree)
    known = known_for(pid)
    known_lines = []
    for name, fn in check.refuted_witnesses():
        still, desc = fn()
        ent = [k for k in known if k.get('witness') == name]
        if still and ent:
            known_lines.append('KNOWN-FINDING: property=%s %s' % (pid, ent[0]['what']))
        elif still and not ent:
            oracle_fail.append((None, {'witness': name}, desc, 'refuted-witness %s fails on the implementation' % name))

    # 4. decide
    violations = []
    def is_known(st, c, o, why):
        sig = (st.known_signature(c, o, why) if st else why) or ''
        for k in known:
            if k.get('signature') and re.search(k['signature'], sig):
                return k
        return None

    seen_known = set()
    new_fail = []
    for (st, c, o, why) in oracle_fail:
        k = is_known(st, c, o, why)
        if k:
            seen_known.add(k['what'])
        else:
            new_fail.append((st, c, o, why))
    new_dis = []
    for (st, c, o) in disagreements:
        # A model disagreement is excused by a known finding only for streams that say their model
        # deliberately deviates from the code on the finding (disagreement_excused_by_known = True).
        # For a faithful model (the default) a known finding is a PROPERTY failure that model and code
        # share, so it never explains a disagreement: it must not hide one on the same case.
        k = is_known(st, c, o, st.oracle(c, o)) if (getattr(st, 'disagreement_excused_by_known', False)
                                                   or os.environ.get('VERIF_LENIENT_DISAGREE')) else None
        if k:
            seen_known.add(k['what'])
        else:
            new_dis.append((st, c, o))
    for w in sorted(seen_known):
        known_lines.append('KNOWN-FINDING: property=%s %s' % (pid, w))
    for l in sorted(set(known_lines)):
        print(l)

    rc = 0
    if new_fail:
        st, c, o, why = new_fail[0]
        if st is not None:
            try:
                c2 = st.shrink(c, lambda cc: st.oracle(cc, st.observe(cc)) is not None)
                o2 = st.observe(c2)
                if st.oracle(c2, o2):
                    c, o, why = c2, o2, st.oracle(c2, o2)
            except Exception:
                pass
        path = write_replay(pid, 'violation', {
            'property': pid, 'seed': seed, 'tier': tier, 'stream': st.name if st else None, 'case': c,
            'implementation_observation': o, 'why': why, 'broken': broken,
            'model_disagreements': len(disagreements), 'oracle_failures': len(oracle_fail)})
        print('VIOLATION property=%s replay=%s' % (pid, path))
        rc = 1
    elif new_dis or broken:
        # the model/proof no longer covers the code, and the search found no failing input
        found = None
        if broken or new_dis:
            found = search_more(check, rng, tier, known, is_known)
        if found:
            st, c, o, why = found
            path = write_replay(pid, 'violation', {
                'property': pid, 'seed': seed, 'tier': tier, 'stream': st.name, 'case': c,
                'implementation_observation': o, 'why': why, 'broken': broken,
                'model_disagreements': len(disagreements)})
            print('VIOLATION property=%s replay=%s' % (pid, path))
        else:
            d0 = new_dis[0] if new_dis else None
            path = write_replay(pid, 'violation', {
                'property': pid, 'seed': seed, 'tier': tier,
                'no_longer_checks': broken if broken else 'correspondence %s/%s' % (pid, d0[0].name),
                'first_disagreement': ({'stream': d0[0].name, 'case': d0[1], 'implementation_observation': d0[2]}
                                       if d0 else None),
                'model_disagreements': len(disagreements)})
            print('VIOLATION property=%s replay=%s no-failing-input-found' % (pid, path))
        rc = 1

    # 5. evidence
    nob = len(prop['theorems']) + len(static)
    ndis = (len(prop['theorems']) if (ok_p and prop['ok']) else 0) + sum(1 for s in static if s['ok'])
    cov.update({
        'obligations': max(nob, 1), 'discharged': ndis,
        'theorems': prop['theorems'],
        'print_assumptions': ('all %d closed under the global context' % prop['closed']) if not prop['axioms'] else prop['axioms'],
        'checker_cmd': 'cd /verif/coq && coq_makefile -f _CoqProject -o Makefile && make Properties/%s.vo && coqc -Q . FIM Properties/%s.v' % (pid, pid),
        'trusted_base': check.trusted_base,
        'static_obligations': static,
        'evaluations': total_eval, 'distinct_nontrivial': len(distinct),
        'rule': '; '.join('%s: %s' % (s.name, s.rule) for s in check.streams),
        'traces_validated_against_impl': validated,
        'samples': samples[:6] or [{'theorems': prop['theorems']}],
        'regenerated_files': sorted(changed.keys()), 'regenerated_changed': sorted(k for k, v in changed.items() if v),
        'broken': broken, 'known_findings_reported': sorted(set(known_lines)),
    })
    write_evidence(pid, tier, seed, cov, check.assumptions, time.time() - t0, rc)
    return rc


def search_more(check, rng, tier, known, is_known, budget_s=None):
    """extra generator rounds judged by the property oracle only (used when something is broken)"""
    budget_s = budget_s or (60 if tier == 'quick' else 600)
    t0 = time.time()
    rounds = 0
    while time.time() - t0 < budget_s and rounds < 50:
        rounds += 1
        for st in check.streams:
            for c in st.gen(rng, 'thorough' if rounds > 1 else tier):
                o = st.observe(c)
                why = st.oracle(c, o)
                if why and not is_known(st, c, o, why):
                    try:
                        c2 = st.shrink(c, lambda cc: st.oracle(cc, st.observe(cc)) is not None)
                        o2 = st.observe(c2)
                        if st.oracle(c2, o2):
                            return (st, c2, o2, st.oracle(c2, o2))
                    except Exception:
                        pass
                    return (st, c, o, why)
                if time.time() - t0 > budget_s:
                    break
    return None


def replay(check, path):
    with open(path) as f:
        r = json.load(f)
    stn = r.get('stream')
    for st in check.streams:
        if st.name == stn:
            o = st.observe(r['case'])
            why = st.oracle(r['case'], o)
            print(json.dumps({'case': r['case'], 'observation': o, 'oracle': why}, indent=1, default=repr))
            return 1 if why else 0
    print('replay has no concrete case: ', json.dumps(r.get('no_longer_checks'), default=repr)[:2000])
    return 1

"""C05 - the two in-memory property-graph backends agree with each other and with the documented semantics.

Lock-step, three ways: every history is executed on the shared-store backend and on the one-graph-per-id
backend (real code), and Coq evaluates Model/Store.v, Model/StoreDisjoint.v and the reference model
Model/PGSpec.v on it: each storage model must reproduce its implementation step by step (result /
exception class / whole-store snapshot), and inside the scope of the reference model the reference result
must equal both implementations' results and its state must equal the abstraction of both stores.

The oracle (independent of the Coq development) is a small dictionary-based Python reference of the
documented interface (RefPG) plus the directly stated properties: identity properties cannot be unset,
Class cannot be changed, a NodeID is unique within its graph whatever the class, merge_nodes keeps the
links of both nodes and applies the keep / overwrite / combine policy."""
import sys, json, itertools, copy
from . import common
from .common import *
from . import store_common as sc

HEADER = ('From Coq Require Import List NArith.\nImport ListNotations.\n'
          'From FIM Require Import Base.Assoc Model.Store Model.StoreDisjoint Model.PGSpec.\nOpen Scope N_scope.\n')

IDENTITY = ['GraphID', 'NodeID', 'Type', 'Class', 'Name']


class Raised(Exception):
    pass


class OutOfScope(Exception):
    pass


class RefPG:
    """documented semantics, per graph id, no store, no internal ids"""

    def __init__(self):
        self.g = {}
        self.xl = []      # cross-graph links left by merge_nodes: [(g, n), (h, y), props]

    def graph(self, g):
        return self.g.setdefault(g, {'nodes': [], 'links': []})

    def find(self, g, n):
        m = [d for d in self.graph(g)['nodes'] if d.get('NodeID') == n]
        if len(m) != 1:
            raise Raised('node')
        return m[0]

    def link(self, g, a, b):
        self.find(g, a)
        self.find(g, b)
        for l in self.graph(g)['links']:
            if {l[0], l[1]} == {a, b}:
                return l
        return None

    def scope(self, op):
        """operations the reference model gives no meaning to: rewriting GraphID / NodeID through the update paths"""
        if op[0] == 'merge':
            if op[1] == op[3] or (op[4] and any(p in op[4] for p in ('GraphID', 'NodeID'))):
                raise OutOfScope('merge of a graph with itself / policy on identity')
            return
        if sc.writes_key(op, 'GraphID') or sc.writes_key(op, 'NodeID'):
            raise OutOfScope('identity rewriting')

    def live(self, g):
        return len(self.graph(g)['nodes']) > 0

    def deviation(self, op):
        """where the one-graph-per-id backend is known to deviate from the reference (findings C05 / C04)"""
        k = op[0]
        if k == 'import' and self.live(op[1]):
            return 'reimport-live'
        if k == 'clone' and self.live(op[1]) and self.live(op[2]):
            return 'reimport-live'
        return None

    def drop_xlinks(self, pred):
        self.xl = [l for l in self.xl if not pred(l)]

    def step(self, op):
        """-> result (canonical rval) or raises Raised"""
        k, g = op[0], op[1]
        G = self.graph(g)
        if k == 'merge':
            return self.merge(op)
        if k in ('import', 'import_direct'):
            self.drop_xlinks(lambda l: g in (l[0][0], l[1][0]))
            nodes = []
            for key, d in op[2]:
                d = dict(d)
                if k == 'import':
                    if not d.get('NodeID'):
                        self.g[g] = {'nodes': [], 'links': []}
                        raise Raised('import')
                    d['GraphID'] = g
                nodes.append(d)
            nid = {key: d.get('NodeID') for key, d in op[2]}
            self.g[g] = {'nodes': nodes, 'links': [[nid[a], nid[b], dict(d)] for a, b, d in op[3]]}
            return ['unit']
        if k == 'del_graph':
            self.drop_xlinks(lambda l: g in (l[0][0], l[1][0]))
            self.g[g] = {'nodes': [], 'links': []}
            return ['unit']
        if k == 'clone':
            if not G['nodes']:
                raise Raised('no such graph')
            self.drop_xlinks(lambda l: op[2] in (l[0][0], l[1][0]))
            if any(not d.get('NodeID') for d in G['nodes']):
                self.g[op[2]] = {'nodes': [], 'links': []}
                raise Raised('import')
            nodes = [dict(d, GraphID=op[2]) for d in G['nodes']]
            links = copy.deepcopy(G['links'])
            self.g[op[2]] = {'nodes': nodes, 'links': links}
            return ['unit']
        if k == 'add_node':
            if any(d.get('NodeID') == op[2] for d in G['nodes']):
                raise Raised('exists')                       # whatever its class
            d = {'GraphID': g, 'NodeID': op[2], 'Class': op[3]}
            d.update(op[4] or {})
            G['nodes'].append(d)
            return ['unit']
        if k == 'del_node':
            d = self.find(g, op[2])
            G['nodes'] = [x for x in G['nodes'] if x is not d]
            G['links'] = [l for l in G['links'] if op[2] not in (l[0], l[1])]
            self.drop_xlinks(lambda l: (g, op[2]) in (tuple(l[0]), tuple(l[1])))
            return ['unit']
        if k == 'add_link':
            self.find(g, op[2])
            self.find(g, op[4])
            if op[5] and 'Class' in op[5]:
                raise Raised('class given twice')
            l = self.link(g, op[2], op[4])
            attrs = dict({'Class': op[3]}, **(op[5] or {}))
            if l is None:
                G['links'].append([op[2], op[4], attrs])
            else:
                l[2].update(attrs)
            return ['unit']
        if sc.none_value(op):
            raise Raised('prop_val must not be None')
        if k == 'upd_node':
            if op[3] == 'Class':
                raise Raised('class')
            self.find(g, op[2])[op[3]] = op[4]
            return ['unit']
        if k == 'unset_node':
            if op[3] in IDENTITY:
                raise Raised('identity')
            self.find(g, op[2]).pop(op[3], None)             # absent: no-op
            return ['unit']
        if k == 'upd_nodes':
            if not G['nodes'] or op[2] == 'Class':
                raise Raised('empty or class')
            for d in G['nodes']:
                d[op[2]] = op[3]
            return ['unit']
        if k == 'upd_node_props':
            if 'Class' in op[3]:
                raise Raised('class')
            self.find(g, op[2]).update(op[3])
            return ['unit']
        if k in ('upd_link', 'unset_link', 'upd_link_props'):
            if (k == 'upd_link_props' and 'Class' in op[5]) or (k != 'upd_link_props' and op[5] == 'Class'):
                raise Raised('class')
            l = self.link(g, op[2], op[3])
            if l is None or l[2].get('Class') != op[4]:
                raise Raised('no such link')
            if k == 'upd_link':
                l[2][op[5]] = op[6]
            elif k == 'unset_link':
                l[2].pop(op[5], None)
            else:
                l[2].update(op[5])
            return ['unit']
        if k == 'get_node':
            d = dict(self.find(g, op[2]))
            if 'Class' not in d:
                raise Raised('no class')
            c = d.pop('Class')
            return ['node', sc.cv(c), sc.cprops(d)]
        if k == 'get_link':
            l = self.link(g, op[2], op[3])
            if l is None or 'Class' not in l[2]:
                raise Raised('no link')
            d = dict(l[2])
            c = d.pop('Class')
            return ['link', sc.cv(c), sc.cprops(d)]
        def ids(ds):
            if any('NodeID' not in d for d in ds):
                raise Raised('a node without NodeID')       # the listing reads NodeID of every node it returns
            return ['vals', sc.sort_vals([sc.cv(d['NodeID']) for d in ds])]
        if k == 'by_class':
            return ids([d for d in G['nodes'] if d.get('Class') == op[2]])
        if k == 'by_class_type':
            return ids([d for d in G['nodes'] if d.get('Class') == op[2] and d.get('Type') == op[3]])
        if k == 'list_ids':
            if not G['nodes']:
                raise Raised('no graph')
            return ids(G['nodes'])
        if k == 'node_exists':
            m = [d for d in G['nodes'] if d.get('NodeID') == op[2] and d.get('Class') == op[3]]
            if len(m) > 1:
                raise Raised('duplicate')
            return ['bool', len(m) == 1]
        if k == 'unique':
            return ['bool', not any(d.get('Class') == op[2] and d.get('Name') == op[3] for d in G['nodes'])]
        if k == 'graph_exists':
            return ['bool', len(G['nodes']) > 0]
        if k == 'matching':
            if not G['nodes']:
                raise Raised('no graph')
            if any('NodeID' not in d for d in G['nodes'] + self.graph(op[2])['nodes']):
                raise Raised('a node without NodeID')
            mine = {d['NodeID'] for d in G['nodes']}
            other = {d['NodeID'] for d in self.graph(op[2])['nodes']}
            return ['vals', sc.sort_vals([sc.cv(x) for x in mine & other])]
        raise OutOfScope(k)

    def merge(self, op):
        g, n, g2, pol = op[1], op[2], op[3], op[4]
        if not self.live(g2):
            raise Raised('other graph missing')
        mine, other = self.find(g, n), self.find(g2, n)
        if pol is None:
            new = dict(mine)
        else:
            new = {}
            for kk, v in mine.items():
                p = pol.get(kk)
                if p is None or p == 'discard':
                    new[kk] = v
                elif p == 'overwrite':
                    if kk not in other:
                        raise Raised('policy needs a property the other node lacks')
                    new[kk] = other[kk]
                elif p == 'combine':
                    if kk not in other:
                        raise Raised('policy needs a property the other node lacks')
                    new[kk] = [v, other[kk]]
                else:
                    new[kk] = None
        G, G2 = self.graph(g), self.graph(g2)
        inside = [l for l in G2['links'] if n in (l[0], l[1])]
        G2['nodes'] = [x for x in G2['nodes'] if x is not other]
        G2['links'] = [l for l in G2['links'] if n not in (l[0], l[1])]
        u, v = (g, n), (g2, n)
        crossing = [l for l in self.xl if v in (tuple(l[0]), tuple(l[1]))]
        self.xl = [l for l in self.xl if v not in (tuple(l[0]), tuple(l[1]))]

        def rehome(far, props):
            if far[0] == g:
                if not any({l[0], l[1]} == {n, far[1]} for l in G['links']):
                    G['links'].append([n, far[1], dict(props)])
            elif not any({tuple(l[0]), tuple(l[1])} == {u, far} for l in self.xl):
                self.xl.append([u, far, dict(props)])
        for a, b, props in inside:
            y = b if a == n else a
            rehome(u if y == n else (g2, y), props)
        for a, b, props in crossing:
            rehome(tuple(b) if tuple(a) == v else tuple(a), props)
        for l in G['links']:
            if n in (l[0], l[1]):
                l[2].pop('contraction', None)
        mine.clear()
        mine.update(new)
        return ['unit']

    def api_views(self):
        out = {}
        for g, G in self.g.items():
            if G['nodes']:
                nodes = sorted(json.dumps(sc.cprops(d)) for d in G['nodes'])
                edges = sorted(json.dumps([sorted([json.dumps(sc.cv(l[0])), json.dumps(sc.cv(l[1]))]), sc.cprops(l[2])])
                               for l in G['links'])
                out[sc.SYM[g]] = [nodes, edges]
        return out


def lock_oracle(ops, obs):
    so, do = obs['shared'], obs['disjoint']
    if sc.uncanonical(so) or sc.uncanonical(do):
        return sc.uncanonical(so) or sc.uncanonical(do)
    ssn = sc.snapshots(so, [[], []])
    dsn = sc.snapshots(do, [])
    ref = RefPG()
    live_s = live_d = True     # comparison with the reference still meaningful (shared / one-graph-per-id)
    known = None               # first recorded deviation of the one-graph-per-id backend met
    clean = True           # no identity rewriting / malformed import so far (NodeID uniqueness must hold)
    prev_s = {}
    for i, op in enumerate(ops):
        k = op[0]
        rs, rd = so[i]['r'], do[i]['r']
        vs, vd = sc.views('shared', ssn[i]), sc.views('disjoint', dsn[i])
        tag = '%s step %d %s' % ('', i, k)
        if sc.none_value(op):
            for name, ob in (('shared', so[i]), ('disjoint', do[i])):
                if ob['r'][0] == 'ok' or ob['s'] is not None:
                    return 'none-value: %s step %d %s with prop_val=None was not refused / changed the store' % (name, i, k)
        # ---- directly stated properties (both backends, every history)
        for name, r in (('shared', rs), ('disjoint', rd)):
            if k == 'unset_node' and op[3] in IDENTITY and r[0] == 'ok':
                return 'identity-unset: %s unset_node_property(%s) did not raise' % (name, op[3])
            cls_write = (k in ('upd_node',) and op[3] == 'Class') or (k == 'upd_nodes' and op[2] == 'Class') or \
                        (k == 'upd_node_props' and 'Class' in op[3]) or (k in ('upd_link', 'unset_link') and op[5] == 'Class') \
                        or (k == 'upd_link_props' and 'Class' in op[5])
            if cls_write and r[0] == 'ok':
                return 'class-change: %s %s on Class did not raise' % (name, k)
        if sc.writes_key(op, 'GraphID') or sc.writes_key(op, 'NodeID') or \
                (k in ('import', 'import_direct') and len({d.get('NodeID') for _, d in op[2]}) < len(op[2])):
            clean = False
        if k == 'merge' and op[4] and any(p in op[4] for p in ('NodeID', 'GraphID', 'Class')):
            clean = False
        for name, vw in (('shared', vs), ('disjoint', vd)):
            for g, (ns, es) in vw.items():
                nids = [json.dumps(sc.pget(n[1], sc.NID)) for n in ns]
                if clean and len(nids) != len(set(nids)):
                    return 'nodeid-unique: %s step %d %s: two nodes of graph %s share a NodeID' % (name, i, k, sc.UNSYM[g])
        # every graph also through the public listings, after every step, on both backends
        if clean:
            for name, o_b, sn_b in (('shared', so[i], ssn[i]), ('disjoint', do[i], dsn[i])):
                if 'p' in o_b:
                    why = sc.probe_check(name, sn_b, o_b['p'], sc.GIDS[:3])
                    if why:
                        return 'listing: %s step %d %s: %s' % (name, i, k, why)
        # identity properties of a persisting node never disappear, its class never changes
        cur_s = {n[0]: n[1] for n in ssn[i][0]}
        if not (k == 'merge' and op[4] and any(p in op[4] for p in IDENTITY)):
            for nid, ps in cur_s.items():
                old = prev_s.get(nid)
                if old is None:
                    continue
                for p in IDENTITY:
                    a, b = sc.pget(old, sc.SYM[p]), sc.pget(ps, sc.SYM[p])
                    if a != 'ABSENT' and b == 'ABSENT' and not (k == 'merge' and rs[0] == 'err'):
                        return 'identity-unset: shared step %d %s removed %s from a node' % (i, k, p)
                    if p == 'Class' and a != 'ABSENT' and b != a and not (k == 'merge' and rs[0] == 'err'):
                        return 'class-change: shared step %d %s changed the class of a node' % (i, k)
        # ---- merge_nodes on the shared store
        if k == 'merge' and rs[0] == 'err' and rs[1] == 'EKey' and i > 0 and op[1] != op[3]:
            why = needless_keyerror(op, ssn[i - 1])
            if why:
                return 'merge: step %d %s' % (i, why)
        if k == 'merge' and rs[0] == 'err' and so[i]['s'] is not None:
            return 'merge-partial: step %d merge_nodes raised %s after changing the store' % (i, rs[2])
        if k == 'merge' and rs[0] == 'ok' and i > 0 and op[1] != op[3]:
            why = merge_oracle(op, ssn[i - 1], ssn[i])
            if why:
                return 'merge: step %d %s' % (i, why)
        prev_s = cur_s
        # ---- agreement with the reference: shared backend as long as the history stays in the reference's scope
        # (merges included), one-graph-per-id backend until a merge (unsupported there) or a known deviation
        if live_s:
            try:
                ref.scope(op)
            except OutOfScope:
                live_s = live_d = False
        if live_s:
            dev = ref.deviation(op) if live_d else None
            try:
                want = ['ok', ref.step(op)]
            except Raised:
                want = ['err']
            rv = ref.api_views()
            backends = [('shared', rs, vs)] + ([('disjoint', rd, vd)] if live_d and k != 'merge' else [])
            if k == 'merge':
                if rd[0] != 'err' or rd[1] != 'ERuntime':
                    return 'agree: step %d merge_nodes on the one-graph-per-id backend did not raise RuntimeError' % i
                live_d = False
            for name, r, vw in backends:
                bad = None
                if r[0] != want[0] or (r[0] == 'ok' and r[1] != want[1]):
                    bad = 'step %d %s: %s backend %s, reference %s' % (
                        i, k, name, json.dumps(r[:2] if r[0] == 'ok' else r[2]), json.dumps(want))
                elif {g: sc.api_view(v) for g, v in vw.items()} != rv:
                    bad = 'step %d %s: content of %s backend differs from the reference' % (i, k, name)
                if bad:
                    if name == 'disjoint' and dev:
                        known = known or 'backends-differ:%s: %s' % (dev, bad)
                        live_d = False
                    else:
                        return 'agree: ' + bad
    return known
    return None


def needless_keyerror(op, before):
    """merge_nodes raised KeyError: legitimate only if an 'overwrite'/'combine' policy names a property of the caller's
    node that the other graph's node lacks"""
    g, n, g2, pol = sc.SYM[op[1]], sc.SYM[op[2]], sc.SYM[op[3]], op[4] or {}
    def node_of(gid):
        m = [x for x in before[0] if sc.pget(x[1], sc.GID) == gid and sc.pget(x[1], sc.NID) == n]
        return m[0] if len(m) == 1 else None
    u, v = node_of(g), node_of(g2)
    if u is None or v is None:
        return None
    mine, other = {a: b for a, b in u[1]}, {a: b for a, b in v[1]}
    needed = [kk for kk in mine if pol.get(sc.UNSYM[kk]) in ('overwrite', 'combine') and kk not in other]
    if not needed:
        return 'merge_nodes raised KeyError although every property its policy needs from the other node is present'
    return None


def merge_oracle(op, before, after):
    """merge_nodes(g, n, g2, policy) succeeded on the shared store: the node of g2 is gone, every link of
    either node is now a link of the surviving node, the properties follow the policy"""
    g, n, g2, pol = sc.SYM[op[1]], sc.SYM[op[2]], sc.SYM[op[3]], op[4]

    def node_of(snap, gid):
        m = [x for x in snap[0] if sc.pget(x[1], sc.GID) == gid and sc.pget(x[1], sc.NID) == n]
        return m[0] if len(m) == 1 else None
    u, v = node_of(before, g), node_of(before, g2)
    if u is None or v is None:
        return 'merge succeeded without exactly one node on each side'
    ids_after = {x[0] for x in after[0]}
    if v[0] in ids_after:
        return 'the merged node of the other graph is still stored'
    nb = lambda snap, x: {(e[1] if e[0] == x else e[0]) for e in snap[1] if x in (e[0], e[1])}
    want = {(u[0] if y == v[0] else y) for y in (nb(before, u[0]) | nb(before, v[0]))}
    got = nb(after, u[0])
    if not want <= got:
        return 'links lost: neighbours %s expected, %s found' % (sorted(want), sorted(got))
    if not got <= want:
        return 'links invented'
    # the surviving node's links carry only link properties: networkx's 'contraction' bookkeeping is gone, a link both
    # nodes had keeps the caller's properties, a link only the other node had keeps its own
    def link_props(snap, x, y):
        for e in snap[1]:
            if {e[0], e[1]} == {x, y}:
                return e[2]
        return None
    for y in got:
        now = link_props(after, u[0], y)
        if any(kv[0] == sc.SPECIAL['contraction'] for kv in now):
            return "a link of the merged node carries networkx's 'contraction' attribute"
        mine_l = link_props(before, u[0], y) if y != u[0] else link_props(before, u[0], u[0])
        if mine_l is not None:
            if [kv for kv in mine_l if kv[0] != sc.SPECIAL['contraction']] != now:
                return 'properties of a link of the surviving node changed'
        elif y not in (u[0], v[0]):
            theirs = link_props(before, v[0], y)
            if theirs is not None and [kv for kv in theirs if kv[0] != sc.SPECIAL['contraction']] != now:
                return 'a link taken over from the other node lost or changed its properties'
    mine, other = dict((a, b) for a, b in u[1]), dict((a, b) for a, b in v[1])
    now = [x for x in after[0] if x[0] == u[0]]
    if not now:
        return 'surviving node vanished'
    now = dict((a, b) for a, b in now[0][1])
    exp = {}
    for kk, val in mine.items():
        p = (pol or {}).get(sc.UNSYM[kk])
        if p is None or p == 'discard':
            exp[kk] = val
        elif p in ('overwrite', 'combine') and kk not in other:
            return 'merge succeeded although the policy needs property %s of the other node, which it lacks' % sc.UNSYM[kk]
        elif p == 'overwrite':
            exp[kk] = other[kk]
        elif p == 'combine':
            exp[kk] = ['L', [val, other[kk]]]
        else:
            exp[kk] = None
    if exp != now:
        return 'properties do not follow the policy'
    return None


class Lock(Stream):
    name = 'lockstep'
    header = HEADER
    case_type = 'list lstep_obs'
    check_fn = 'check_lock'
    shard = 50
    rule = ('the same history on both backends: random histories (depth 6-30; add/delete node, add link, update/unset '
            'node and link properties singly and in bulk, whole-graph update, listings, existence/uniqueness, matching, '
            'merging, delete graph, import, clone) over 3 graph ids x 5 node ids x 2-3 classes x 2 relations x 3 property '
            'names, merge scenarios, emptying scenarios (graph_exists / listings asked repeatedly around delete-to-empty, merge-to-empty, delete through the importer); graph objects are LONG-LIVED (one primary and one secondary handle per graph id for the whole history, every 5th step through the secondary / the importer); non-trivial = >=4 state-changing steps and the three-way comparison alive for >=4 steps; '
            'distinct by (history, observations)')

    W = {'import': 4, 'import_direct': 1, 'clone': 2, 'merge': 2, 'del_graph': 2}

    def gen(self, rng, tier):
        n = 400 if tier == 'quick' else 4000
        out = []
        for i in range(n):
            r = rng.random()
            if r < 0.1:
                out.append(sc.merge_scenario(rng, extra=rng.randrange(0, 6)))
            elif r < 0.2:
                out.append(sc.emptying_scenario(rng, extra=rng.randrange(0, 6)))
            elif r < 0.27:
                out.append(sc.late_add_scenario(rng, extra=rng.randrange(0, 6)))
            elif r < 0.34:
                out.append(sc.delete_then_add_scenario(rng, extra=rng.randrange(0, 6)))
            elif r < 0.75:
                # inside the reference model's scope for long: no merge, no identity rewriting, well-formed imports
                out.append(sc.gen_history(rng, rng.choice([6, 10, 15, 20, 30]), weights=dict(self.W, merge=0),
                                          identity_rate=0.0, malformed=0.0, prefer_fresh=0.9))
            else:
                out.append(sc.gen_history(rng, rng.choice([6, 10, 15, 20, 30]), weights=self.W,
                                          identity_rate=0.03, malformed=0.08, prefer_fresh=0.7))
        return out

    def corpus(self):
        import glob
        out = []
        for p in sorted(glob.glob(os.path.join(VERIF, 'corpus', 'C05', '*.json'))):
            with open(p) as f:
                out.append(json.load(f)['ops'])
        return out

    def observe(self, case):
        return {'shared': sc.run_history('shared', case), 'disjoint': sc.run_history('disjoint', case)}

    def to_coq(self, case, obs):
        items = []
        for op, a, b in zip(case, obs['shared'], obs['disjoint']):
            if sc.none_value(op):
                continue      # refused by `assert prop_val is not None` (checked by the oracle: raises, store unchanged)
            items.append('(%s, (%s, %s), (%s, %s))' % (sc.q_op(op), sc.q_res(a['r']), sc.q_snap('shared', a['s']),
                                                       sc.q_res(b['r']), sc.q_snap('disjoint', b['s'])))
        return clist(items)

    def oracle(self, case, obs):
        try:
            return lock_oracle(case, obs)
        except Exception as e:      # observations the oracle was not written for are themselves a failure
            return 'unexpected observations: the oracle could not evaluate this history (%s: %s)' % (type(e).__name__, e)

    def key(self, case, obs):
        changing = sum(1 for o in obs['shared'] if o['s'] is not None)
        ref = RefPG()
        alive = 0
        for op in case:
            try:
                ref.scope(op)
                try:
                    ref.step(op)
                except Raised:
                    pass
                alive += 1
            except OutOfScope:
                break
        if changing >= 4 and alive >= 4:
            return stable_hash([case, obs])
        return None

    def histogram(self, cases, obs):
        h = sc.op_histogram(cases, [o['shared'] for o in obs])
        h['disjoint_errors'] = sc.op_histogram(cases, [o['disjoint'] for o in obs])['errors']
        alive = []
        for c in cases:
            ref = RefPG()
            a = 0
            for op in c:
                try:
                    ref.scope(op)
                    try:
                        ref.step(op)
                    except Raised:
                        pass
                    a += 1
                except OutOfScope:
                    break
            alive.append(a)
        h['three_way_steps'] = sum(alive)
        h['histories_fully_three_way'] = sum(1 for a, c in zip(alive, cases) if a == len(c))
        return h

    def describe(self, case, obs):
        return {'ops': case, 'shared_results': [o['r'] for o in obs['shared']],
                'disjoint_results': [o['r'] for o in obs['disjoint']]}

    def shrink(self, case, failing):
        # keep the KIND of failure while shrinking: never shrink an unknown failure into a recorded finding
        import re
        known = [re.compile(k['signature']) for k in known_for('C05') if k.get('signature')]

        def still(cc):
            o = self.observe(cc)
            w = self.oracle(cc, o)
            return bool(w) and not any(r.search(self.known_signature(cc, o, w)) for r in known)
        return sc.shrink_history(case, still)

    def known_signature(self, case, obs, why):
        return why or ''


class Exhaustive(Lock):
    name = 'exhaustive'
    rule = ('ALL histories of depth <= D (quick D=2 over 24 operations, thorough D=3 over 24 and D=4 over 8) on 2 graph ids x 2 node '
            'ids x 2 classes x 1 relation x 1 property name; non-trivial = >=2 state-changing steps; distinct by history')

    ALPHA = [
        ['add_node', 'g0', 'n0', 'c0', None], ['add_node', 'g0', 'n0', 'c1', None], ['add_node', 'g0', 'n1', 'c0', {'p0': 'v0'}],
        ['add_node', 'g1', 'n0', 'c0', None], ['del_node', 'g0', 'n0'], ['add_link', 'g0', 'n0', 'r0', 'n1', None],
        ['upd_node', 'g0', 'n0', 'p0', 'v1'], ['unset_node', 'g0', 'n0', 'p0'], ['unset_node', 'g0', 'n0', 'Name'],
        ['upd_node', 'g0', 'n0', 'Class', 'c1'],
        ['upd_nodes', 'g0', 'p0', 'v0'], ['upd_link', 'g0', 'n0', 'n1', 'r0', 'p0', 'v0'], ['unset_link', 'g0', 'n1', 'n0', 'r0', 'p0'],
        ['del_graph', 'g0'], ['list_ids', 'g0'], ['node_exists', 'g0', 'n0', 'c1'], ['get_node', 'g0', 'n0'],
        ['get_link', 'g0', 'n0', 'n1'], ['matching', 'g0', 'g1'], ['graph_exists', 'g0'],
        ['import', 'g0', [[1, {'NodeID': 'n0', 'Class': 'c0'}], [2, {'NodeID': 'n1', 'Class': 'c1'}]], [[1, 2, {'Class': 'r0'}]]],
        ['clone', 'g0', 'g1'], ['by_class', 'g0', 'c0'], ['upd_node_props', 'g0', 'n0', {'p0': 'v1', 'Name': 'v0'}],
    ]

    def gen(self, rng, tier):
        out = []
        if tier == 'quick':
            a = self.ALPHA
            for k in (1, 2):
                out += [[list(x) for x in t] for t in itertools.product(a, repeat=k)]
        else:
            for k in (1, 2, 3):
                out += [[list(x) for x in t] for t in itertools.product(self.ALPHA, repeat=k)]
            core = [self.ALPHA[i] for i in (0, 1, 2, 3, 4, 5, 7, 13)]
            out += [[list(x) for x in t] for t in itertools.product(core, repeat=4)]
        return out

    def corpus(self):
        return []

    def key(self, case, obs):
        if sum(1 for o in obs['shared'] if o['s'] is not None) >= 2:
            return stable_hash(case)
        return None


class C05(Check):
    pid = 'C05'
    translators = ['gen_pgconst']
    model_targets = ['Model/Store.vo', 'Model/StoreDisjoint.vo', 'Model/PGSpec.vo']
    streams = [Lock(), Exhaustive()]
    trusted_base = [
        'Coq 8.16.1 kernel (coqc), vm_compute for the correspondence evaluation; no native_compute',
        'Print Assumptions of every C05 theorem: Closed under the global context (no axioms)',
        'Model/Store.v, Model/StoreDisjoint.v (hand transcription of the two storages and of NetworkXPropertyGraph) and '
        'Model/PGSpec.v (reference model written from the docstrings of abc_property_graph.py:133-432), validated on every '
        'run by the lock-step streams',
        'modelled not verified: networkx 3.6.1 Graph primitives, contracted_nodes(copy=False), networkx_query eq/and',
        'translator/gen_pgconst.py (NO_UNSET_PROPERTIES, NETWORKX_LABEL, guard placement in the mutators, add_node existence '
        'test, disjoint merge_nodes) -> Gen/PGConst.v, fail-closed',
        'harness/store_common.py + harness/c05.py + harness/common.py (interning, generation, recording, RefPG oracle)',
    ]
    assumptions = [
        'single-threaded use of the stores',
        'property values are strings; node ids, graph ids, classes and relations are strings',
        'the reference model gives no meaning to rewriting GraphID / NodeID through update_* (re-homing / renaming) and to '
        'merge_nodes; histories are compared three ways up to the first such operation, the storage models are compared '
        'with their implementations on the whole history',
    ]


    def refuted_witnesses(self):
        def run(ops, expect_tag):
            def f():
                obs = {'shared': sc.run_history('shared', ops), 'disjoint': sc.run_history('disjoint', ops)}
                why = lock_oracle(ops, obs)
                return (bool(why) and expect_tag in why, {'ops': ops, 'oracle': why,
                                                           'shared': [o['r'] for o in obs['shared']],
                                                           'disjoint': [o['r'] for o in obs['disjoint']]})
            return f
        return [
            ('C05_agree_reimport_live_refuted',
             run([['add_node', 'g0', 'n0', 'c0', None],
                  ['import', 'g0', [[1, {'NodeID': 'n1', 'Class': 'c0'}]], []], ['list_ids', 'g0']], 'reimport-live')),
        ]


if __name__ == '__main__':
    sys.exit(main(C05()))
